use sev::engine::Tier;
use std::path::PathBuf;

fn usage() -> ! {
    eprintln!("usage: sev check <ID> [--tier quick|thorough] [--part <file>] [--stage <name>]\n       sev replay <file>\n       sev merge <ID> <part>...\n       sev list");
    std::process::exit(2)
}

fn main() {
    let args: Vec<String> = std::env::args().collect();
    if args.len() < 2 {
        usage();
    }
    let seed: u64 = std::env::var("VERIF_SEED").ok().and_then(|s| s.parse().ok()).unwrap_or(1);
    match args[1].as_str() {
        "check" => {
            let id = args.get(2).cloned().unwrap_or_else(|| usage());
            let mut tier = match std::env::var("VERIF_TIER").ok().as_deref() {
                Some("thorough") => Tier::Thorough,
                _ => Tier::Quick,
            };
            let mut part: Option<PathBuf> = None;
            let mut stage: Option<String> = None;
            let mut i = 3;
            while i < args.len() {
                match args[i].as_str() {
                    "--tier" => {
                        tier = if args[i + 1] == "thorough" { Tier::Thorough } else { Tier::Quick };
                        i += 2;
                    }
                    "--part" => {
                        part = Some(PathBuf::from(&args[i + 1]));
                        i += 2;
                    }
                    "--stage" => {
                        stage = Some(args[i + 1].clone());
                        i += 2;
                    }
                    "--isolate" => {
                        sev::engine::set_isolate(true);
                        i += 1;
                    }
                    _ => usage(),
                }
            }
            let r = sev::report::run_check(&id, tier, seed, part.as_deref(), stage.as_deref());
            std::process::exit(r.exit);
        }
        "replay" => {
            sev::engine::install_panic_hook();
            let f = PathBuf::from(args.get(2).cloned().unwrap_or_else(|| usage()));
            sev::known::set_strict(true);
            match sev::report::replay_file(&f, Tier::Quick) {
                Ok(None) => {
                    println!("PASS {}", f.display());
                    std::process::exit(0)
                }
                Ok(Some(m)) => {
                    println!("FAIL {}: {}", f.display(), m);
                    std::process::exit(1)
                }
                Err(e) => {
                    eprintln!("error: {e}");
                    std::process::exit(2)
                }
            }
        }
        "merge" => {
            let id = args.get(2).cloned().unwrap_or_else(|| usage());
            let parts: Vec<PathBuf> = args[3..].iter().map(PathBuf::from).collect();
            if let Err(e) = sev::report::merge_parts(&id, &parts) {
                eprintln!("merge: {e}");
                std::process::exit(2);
            }
        }
        "run" => {
            let lang = sev::script::lang_by_name(&args[2]).expect("language");
            sev::script::run(lang, &args[3]);
        }
        "mkhist" => {
            // sev mkhist <property> <stage> <lang> "<script>"  -> replay/corpus JSON on stdout
            let lang = sev::script::lang_by_name(&args[4]).expect("language");
            let h = sev::hist::Hist::from_script(lang, &args[5]).expect("script");
            let v = serde_json::json!({"property": args[2], "stage": args[3], "config": "any", "message": "", "rendered": h.render(), "case": h});
            println!("{}", serde_json::to_string_pretty(&v).unwrap());
        }
        "mkmixed" => {
            // sev mkmixed <property> <stage> <lang> "<script>" [config] [extraction]
            let lang = sev::script::lang_by_name(&args[4]).expect("language");
            let cfgname = args.get(6).cloned().unwrap_or_else(|| "any".into());
            let ex = args.get(7).map(|s| s == "extraction").unwrap_or(false);
            let h = sev::mixed::Mixed::from_script(lang, &args[5], ex).expect("script");
            let v = serde_json::json!({"property": args[2], "stage": args[3], "config": cfgname, "message": "", "rendered": h.render(), "case": h});
            println!("{}", serde_json::to_string_pretty(&v).unwrap());
        }
        "validate-rules" => {
            match sev::fprules::validate_all() {
                Ok(()) => println!("all {} Fp rules valid in the model", sev::fprules::fp_rules().len()),
                Err(e) => {
                    println!("{e}");
                    std::process::exit(2)
                }
            }
        }
        "exec-case" => {
            sev::engine::install_panic_hook();
            let mut inp = String::new();
            std::io::Read::read_to_string(&mut std::io::stdin(), &mut inp).unwrap();
            let v: serde_json::Value = serde_json::from_str(&inp).expect("json");
            let p = sev::props::property(v["property"].as_str().unwrap(), Tier::Quick).expect("property");
            let st = p.stages.iter().find(|s| s.name() == v["stage"].as_str().unwrap()).expect("stage");
            println!("{}", st.exec_json(&v["case"]));
        }
        "transcript" => {
            sev::props::c20::child_main();
        }
        "transcript-under-dump" => {
            sev::props::c20::child_under_dump_main();
        }
        "list" => {
            for p in sev::props::ALL {
                println!("{p}");
            }
        }
        _ => usage(),
    }
}
