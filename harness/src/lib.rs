//! sev — property-based verification harness for slotted-egraphs (see /verif/DESIGN.md).
pub mod engine;
pub mod tm;
pub mod langs;
pub mod egx;
pub mod hist;
pub mod mixed;
pub mod analyses;
pub mod fp;
pub mod pat;
pub mod fprules;
pub mod known;
pub mod oracle;
pub mod props;
pub mod report;
pub mod script;
pub mod fuzz;

pub fn config_name() -> &'static str {
    match (cfg!(feature = "explanations"), cfg!(feature = "checks")) {
        (false, false) => "default",
        (false, true) => "checks",
        (true, false) => "explanations",
        (true, true) => "explanations+checks",
    }
}
