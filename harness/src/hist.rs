//! Histories of insertions and unions: case type, recipe-based generator (DESIGN §2.3), renderer.

use crate::langs::LangId;
use crate::tm::*;
use proptest::prelude::*;
use serde::{Deserialize, Serialize};
use std::collections::{BTreeMap, BTreeSet};

#[derive(Clone, Debug, PartialEq, Eq, Hash, Serialize, Deserialize)]
pub enum HOp {
    Add(Tm),
    /// union of the i-th and j-th added term
    Union(usize, usize),
}

#[derive(Clone, Debug, PartialEq, Eq, Hash, Serialize, Deserialize)]
pub struct Hist {
    pub lang: LangId,
    pub naming: Naming,
    pub ops: Vec<HOp>,
}

impl Hist {
    pub fn render(&self) -> String {
        let mut out = format!("[{:?}] ", self.lang);
        let mut k = 0;
        for o in &self.ops {
            match o {
                HOp::Add(t) => {
                    out.push_str(&format!("t{}=add {}; ", k, t.render(&self.naming)));
                    k += 1;
                }
                HOp::Union(i, j) => out.push_str(&format!("union t{} t{}; ", i, j)),
            }
        }
        out
    }

    pub fn terms(&self) -> Vec<Tm> {
        self.ops
            .iter()
            .filter_map(|o| match o {
                HOp::Add(t) => Some(t.clone()),
                _ => None,
            })
            .collect()
    }

    pub fn n_unions(&self) -> usize {
        self.ops.iter().filter(|o| matches!(o, HOp::Union(..))).count()
    }

    /// drops unions whose operands do not exist (can happen after shrinking)
    pub fn sanitize(mut self) -> Hist {
        let mut n = 0;
        let mut ops = Vec::new();
        for o in self.ops.drain(..) {
            match o {
                HOp::Add(t) => {
                    n += 1;
                    ops.push(HOp::Add(t));
                }
                HOp::Union(i, j) => {
                    if i < n && j < n {
                        ops.push(HOp::Union(i, j));
                    }
                }
            }
        }
        self.ops = ops;
        self
    }
}

#[derive(Clone, Debug)]
pub struct HistCfg {
    pub lang: LangId,
    pub gen: GenCfg,
    pub max_ops: usize,
    /// weights of the op kinds: add, unrelated, permuted, renamed, context, reorder, existing, congruent-parents, symmetric-then-redundant, improving-child cascade, symmetric-class-used-twice, symmetric-then-several-slots-redundant, layered-merge
    pub weights: [usize; 13],
    pub namings: Vec<Naming>,
}

impl HistCfg {
    pub fn core() -> HistCfg {
        HistCfg {
            lang: LangId::Core,
            gen: GenCfg {
                alphabet: 4,
                max_depth: 3,
                ops: Some(vec!["v", "c0", "f2", "g3", "c1", "w", "p", "lam", "let", "sum2", "", "t3", "q2", "bb"]),
                ..GenCfg::default()
            },
            max_ops: 6,
            weights: [2, 2, 3, 3, 3, 2, 3, 2, 2, 2, 2, 1, 2],
            namings: vec![Naming::Alpha],
        }
    }
    pub fn for_lang(lang: LangId) -> HistCfg {
        let mut c = HistCfg::core();
        c.lang = lang;
        c.gen.ops = None;
        if lang == LangId::Core {
            return HistCfg::core();
        }
        c
    }
}

fn random_perm(names: &[Name], src: &mut Src) -> BTreeMap<Name, Name> {
    // Fisher-Yates driven by choices; biased to non-identity by a final rotation if identity
    let mut v: Vec<Name> = names.to_vec();
    for i in (1..v.len()).rev() {
        let j = src.pick(i + 1);
        v.swap(i, j);
    }
    if v == names && v.len() >= 2 {
        v.rotate_left(1);
    }
    names.iter().copied().zip(v.into_iter()).collect()
}

pub fn decode_hist(cfg: &HistCfg, chunks: &[Vec<u16>], naming_choice: u16) -> Hist {
    decode_hist_from(cfg, chunks, naming_choice, &[])
}

/// like decode_hist, but `prior` terms already exist (indices of unions are global: prior terms first)
pub fn decode_hist_from(cfg: &HistCfg, chunks: &[Vec<u16>], naming_choice: u16, prior: &[Tm]) -> Hist {
    let sig = cfg.lang.sig();
    let mut ops: Vec<HOp> = Vec::new();
    let mut n_terms = prior.len();
    let mut terms: Vec<Tm> = prior.to_vec();
    let total_w: usize = cfg.weights.iter().sum();
    let mk = |src: &mut Src| -> Tm { cap_fv(&gen_tm(&sig, &cfg.gen, src, 0), cfg.gen.max_fv) };
    for ch in chunks.iter().take(cfg.max_ops) {
        let mut src = Src::new(ch);
        let mut w = src.pick(total_w);
        let mut kind = 0;
        for (i, wi) in cfg.weights.iter().enumerate() {
            if w < *wi {
                kind = i;
                break;
            }
            w -= wi;
        }
        let push_add = |t: Tm, ops: &mut Vec<HOp>, terms: &mut Vec<Tm>, n_terms: &mut usize| -> usize {
            ops.push(HOp::Add(t.clone()));
            terms.push(t);
            *n_terms += 1;
            *n_terms - 1
        };
        match kind {
            0 => {
                let t = mk(&mut src);
                push_add(t, &mut ops, &mut terms, &mut n_terms);
            }
            1 => {
                let a = mk(&mut src);
                let b = mk(&mut src);
                let i = push_add(a, &mut ops, &mut terms, &mut n_terms);
                let j = push_add(b, &mut ops, &mut terms, &mut n_terms);
                ops.push(HOp::Union(i, j));
            }
            2 => {
                // a term and a permuted copy of itself
                let a = if n_terms > 0 && src.coin(1, 3) { terms[src.pick(n_terms)].clone() } else { mk(&mut src) };
                let fv: Vec<Name> = a.fv().into_iter().collect();
                let sigma = random_perm(&fv, &mut src);
                let b = a.rename_free(&sigma);
                let b = unfreshen(&b);
                let i = push_add(a, &mut ops, &mut terms, &mut n_terms);
                let j = push_add(b, &mut ops, &mut terms, &mut n_terms);
                if src.coin(1, 2) {
                    ops.push(HOp::Union(i, j));
                } else {
                    ops.push(HOp::Union(j, i));
                }
            }
            3 => {
                // a copy with one free name renamed to a name the term lacks -> redundancy
                let a = if n_terms > 0 && src.coin(1, 3) { terms[src.pick(n_terms)].clone() } else { mk(&mut src) };
                let fv: Vec<Name> = a.fv().into_iter().collect();
                let i = push_add(a.clone(), &mut ops, &mut terms, &mut n_terms);
                if fv.is_empty() {
                    continue;
                }
                let x = fv[src.pick(fv.len())];
                let lacking: Vec<Name> = (0..cfg.gen.alphabet).filter(|n| !fv.contains(n)).collect();
                if lacking.is_empty() {
                    continue;
                }
                let z = lacking[src.pick(lacking.len())];
                let mut m = BTreeMap::new();
                m.insert(x, z);
                let b = unfreshen(&a.rename_free(&m));
                let j = push_add(b, &mut ops, &mut terms, &mut n_terms);
                ops.push(HOp::Union(i, j));
            }
            4 => {
                // a term and a context around a renamed copy of itself (self-reference)
                let a = if n_terms > 0 && src.coin(1, 3) { terms[src.pick(n_terms)].clone() } else { mk(&mut src) };
                let fv: Vec<Name> = a.fv().into_iter().collect();
                let all: Vec<Name> = (0..cfg.gen.alphabet).collect();
                // injective renaming of fv into the alphabet
                let mut targets = all.clone();
                let mut m = BTreeMap::new();
                for x in &fv {
                    let k = src.pick(targets.len());
                    m.insert(*x, targets.remove(k));
                }
                let inner = unfreshen(&a.rename_free(&m));
                let ctx_ops: Vec<&OpSig> = sig
                    .ops
                    .iter()
                    .filter(|o| !o.is_leaf() && cfg.gen.ops.as_ref().map(|v| v.contains(&o.name)).unwrap_or(true))
                    .collect();
                if ctx_ops.is_empty() {
                    push_add(a, &mut ops, &mut terms, &mut n_terms);
                    continue;
                }
                let o = ctx_ops[src.pick(ctx_ops.len())];
                let hole = src.pick(o.n_kids());
                let mut args = Vec::new();
                let mut kid_i = 0;
                for f in &o.fields {
                    match f {
                        Field::Slot => args.push(Arg::S(src.pick(cfg.gen.alphabet as usize) as Name)),
                        Field::PayU32 => args.push(Arg::P("1".into())),
                        Field::PaySym => args.push(Arg::P("s".into())),
                        Field::PayOther(v) => args.push(Arg::P(v[0].to_string())),
                        Field::Kid(nb) => {
                            let mut bs = Vec::new();
                            for _ in 0..*nb {
                                bs.push(src.pick(cfg.gen.alphabet as usize) as Name);
                            }
                            if bs.len() == 2 && bs[0] == bs[1] {
                                bs[1] = (bs[1] + 1) % cfg.gen.alphabet.max(2);
                            }
                            let k = if kid_i == hole {
                                inner.clone()
                            } else {
                                let mut g = cfg.gen.clone();
                                g.max_depth = 1;
                                gen_tm(&sig, &g, &mut src, 0)
                            };
                            kid_i += 1;
                            args.push(Arg::K(bs, k));
                        }
                    }
                }
                let b = cap_fv(&fix_same_node_shadowing(Tm { op: o.name.to_string(), args }, 0), cfg.gen.max_fv);
                let i = push_add(a, &mut ops, &mut terms, &mut n_terms);
                let j = push_add(b, &mut ops, &mut terms, &mut n_terms);
                if src.coin(1, 2) {
                    ops.push(HOp::Union(i, j));
                } else {
                    ops.push(HOp::Union(j, i));
                }
            }
            5 => {
                // two different leaf terms over the same names in different order
                let leaves: Vec<&OpSig> = sig
                    .ops
                    .iter()
                    .filter(|o| {
                        o.is_leaf()
                            && o.fields.iter().filter(|f| matches!(f, Field::Slot)).count() >= 2
                            && cfg.gen.ops.as_ref().map(|v| v.contains(&o.name)).unwrap_or(true)
                    })
                    .collect();
                if leaves.is_empty() {
                    let t = mk(&mut src);
                    push_add(t, &mut ops, &mut terms, &mut n_terms);
                    continue;
                }
                let o1 = leaves[src.pick(leaves.len())];
                let o2 = leaves[src.pick(leaves.len())];
                let k1 = o1.fields.len();
                let k2 = o2.fields.len();
                let k = k1.min(k2).min(cfg.gen.max_fv);
                let mut pool: Vec<Name> = (0..cfg.gen.alphabet).collect();
                let mut names = Vec::new();
                for _ in 0..k {
                    let i = src.pick(pool.len());
                    names.push(pool.remove(i));
                }
                let a1: Vec<Name> = (0..k1).map(|i| names[i % k]).collect();
                let sigma = random_perm(&names, &mut src);
                let a2: Vec<Name> = (0..k2).map(|i| sigma[&names[i % k]]).collect();
                let i = push_add(Tm::leaf(o1.name, &a1), &mut ops, &mut terms, &mut n_terms);
                let j = push_add(Tm::leaf(o2.name, &a2), &mut ops, &mut terms, &mut n_terms);
                ops.push(HOp::Union(i, j));
            }
            8 => {
                // a term made symmetric under a random permutation of its free names, then one of its names made redundant:
                // orbits that become redundant only in part, cycles that survive on the remaining slots
                let a = if n_terms > 0 && src.coin(1, 4) { terms[src.pick(n_terms)].clone() } else { mk(&mut src) };
                let fv: Vec<Name> = a.fv().into_iter().collect();
                let i = push_add(a.clone(), &mut ops, &mut terms, &mut n_terms);
                if fv.len() < 2 {
                    continue;
                }
                let sigma = random_perm(&fv, &mut src);
                let b = unfreshen(&a.rename_free(&sigma));
                let j = push_add(b, &mut ops, &mut terms, &mut n_terms);
                ops.push(if src.coin(1, 2) { HOp::Union(i, j) } else { HOp::Union(j, i) });
                let lacking: Vec<Name> = (0..cfg.gen.alphabet + 1).filter(|n| !fv.contains(n)).collect();
                let x = fv[src.pick(fv.len())];
                let z = lacking[src.pick(lacking.len())];
                let mut m = BTreeMap::new();
                m.insert(x, z);
                let c = unfreshen(&a.rename_free(&m));
                let k = push_add(c, &mut ops, &mut terms, &mut n_terms);
                ops.push(if src.coin(1, 2) { HOp::Union(i, k) } else { HOp::Union(k, i) });
            }
            7 => {
                // two parents over the same names whose children (multi-slot leaves, one of them possibly symmetric, in
                // different argument orders) are united afterwards: the parents become congruent through the children
                let leaves: Vec<&OpSig> = sig
                    .ops
                    .iter()
                    .filter(|o| {
                        o.is_leaf()
                            && (2..=3).contains(&o.fields.iter().filter(|f| matches!(f, Field::Slot)).count())
                            && o.fields.iter().all(|f| matches!(f, Field::Slot))
                            && cfg.gen.ops.as_ref().map(|v| v.contains(&o.name)).unwrap_or(true)
                    })
                    .collect();
                let binary: Vec<&OpSig> = sig
                    .ops
                    .iter()
                    .filter(|o| o.n_kids() == 2 && o.fields.iter().all(|f| matches!(f, Field::Kid(_))) && cfg.gen.ops.as_ref().map(|v| v.contains(&o.name)).unwrap_or(true))
                    .collect();
                if leaves.is_empty() || binary.is_empty() {
                    let t = mk(&mut src);
                    push_add(t, &mut ops, &mut terms, &mut n_terms);
                    continue;
                }
                let o1 = leaves[src.pick(leaves.len())];
                let o2 = leaves[src.pick(leaves.len())];
                let par = binary[src.pick(binary.len())];
                let k = o1.fields.len().min(o2.fields.len());
                let mut pool: Vec<Name> = (0..cfg.gen.alphabet).collect();
                let mut names = Vec::new();
                for _ in 0..k.min(cfg.gen.max_fv) {
                    let i = src.pick(pool.len());
                    names.push(pool.remove(i));
                }
                let k = names.len();
                let args = |n: usize, perm: &BTreeMap<Name, Name>| -> Vec<Name> { (0..n).map(|i| perm[&names[i % k]]).collect() };
                let idp: BTreeMap<Name, Name> = names.iter().map(|n| (*n, *n)).collect();
                let sg1 = random_perm(&names, &mut src);
                let sg2 = random_perm(&names, &mut src);
                let l1 = Tm::leaf(o1.name, &args(o1.fields.len(), &idp));
                let l1s = Tm::leaf(o1.name, &args(o1.fields.len(), &sg1));
                let l2 = Tm::leaf(o2.name, &args(o2.fields.len(), &sg2));
                // the sibling child mentions one of the names (anchors the argument order)
                let sib_leaf: Option<&OpSig> = sig.ops.iter().find(|o| o.is_leaf() && o.fields.len() == 1 && matches!(o.fields[0], Field::Slot));
                let sib = match sib_leaf {
                    Some(o) => Tm::leaf(o.name, &[names[src.pick(k)]]),
                    None => l1.clone(),
                };
                let mk_parent = |child: &Tm, first: bool| -> Tm {
                    let mut a = Vec::new();
                    let mut kid = 0;
                    for f in &par.fields {
                        if let Field::Kid(nb) = f {
                            // binders of the parent (if any) bind names outside the alphabet
                            let bs: Vec<Name> = (0..*nb).map(|b| 45 + kid as Name * 2 + b as Name).collect();
                            let c = if (kid == 0) == first { child.clone() } else { sib.clone() };
                            a.push(Arg::K(bs, c));
                            kid += 1;
                        }
                    }
                    Tm { op: par.name.to_string(), args: a }
                };
                let first = src.coin(1, 2);
                let p1 = push_add(mk_parent(&l1, first), &mut ops, &mut terms, &mut n_terms);
                let p2 = push_add(mk_parent(&l2, first), &mut ops, &mut terms, &mut n_terms);
                let _ = (p1, p2);
                let i1 = push_add(l1, &mut ops, &mut terms, &mut n_terms);
                if src.coin(2, 3) {
                    let i1s = push_add(l1s, &mut ops, &mut terms, &mut n_terms);
                    ops.push(HOp::Union(i1, i1s));
                }
                let i2 = push_add(l2, &mut ops, &mut terms, &mut n_terms);
                if src.coin(1, 2) {
                    ops.push(HOp::Union(i1, i2));
                } else {
                    ops.push(HOp::Union(i2, i1));
                }
            }
            11 => {
                // a multi-slot leaf made symmetric under 1-2 random permutations, then united with a smaller leaf over a strict
                // subset of its names: several slots become redundant in one step, orbits are cut in the middle
                let leaves: Vec<&OpSig> = sig
                    .ops
                    .iter()
                    .filter(|o| o.is_leaf() && !o.fields.is_empty() && o.fields.iter().all(|f| matches!(f, Field::Slot)) && o.fields.len() <= cfg.gen.max_fv.max(3) && cfg.gen.ops.as_ref().map(|v| v.contains(&o.name)).unwrap_or(true))
                    .collect();
                let big: Vec<&&OpSig> = leaves.iter().filter(|o| o.fields.len() >= 3).collect();
                if big.is_empty() {
                    let t = mk(&mut src);
                    push_add(t, &mut ops, &mut terms, &mut n_terms);
                    continue;
                }
                let o = big[src.pick(big.len())];
                let k = o.fields.len();
                let names: Vec<Name> = (0..k as Name).collect();
                let small: Vec<&&OpSig> = leaves.iter().filter(|p| p.fields.len() < k).collect();
                let i0 = push_add(Tm::leaf(o.name, &names), &mut ops, &mut terms, &mut n_terms);
                for _ in 0..1 + src.pick(2) {
                    let g = random_perm(&names, &mut src);
                    let j = push_add(Tm::leaf(o.name, &names.iter().map(|n| g[n]).collect::<Vec<_>>()), &mut ops, &mut terms, &mut n_terms);
                    ops.push(if src.coin(1, 2) { HOp::Union(i0, j) } else { HOp::Union(j, i0) });
                }
                if !small.is_empty() {
                    let q = small[src.pick(small.len())];
                    let mut pool = names.clone();
                    let args: Vec<Name> = (0..q.fields.len()).map(|_| pool.remove(src.pick(pool.len()))).collect();
                    let j = push_add(Tm::leaf(q.name, &args), &mut ops, &mut terms, &mut n_terms);
                    ops.push(if src.coin(1, 2) { HOp::Union(i0, j) } else { HOp::Union(j, i0) });
                }
            }
            10 => {
                // a multi-slot leaf made symmetric under 0-2 random permutations, then a parent that uses the leaf's class twice
                // with two different argument orders (the orders differ by a symmetry of the class or not): repeated pattern
                // variables, canonical argument orders of parents, congruence of parents
                let leaves: Vec<&OpSig> = sig
                    .ops
                    .iter()
                    .filter(|o| {
                        o.is_leaf()
                            && (3..=cfg.gen.max_fv.max(3)).contains(&o.fields.len())
                            && o.fields.iter().all(|f| matches!(f, Field::Slot))
                            && cfg.gen.ops.as_ref().map(|v| v.contains(&o.name) || o.name == "h3" || o.name == "g4").unwrap_or(true)
                    })
                    .collect();
                let parents: Vec<&OpSig> = sig
                    .ops
                    .iter()
                    .filter(|o| (2..=3).contains(&o.n_kids()) && o.fields.iter().all(|f| matches!(f, Field::Kid(0))) && cfg.gen.ops.as_ref().map(|v| v.contains(&o.name)).unwrap_or(true))
                    .collect();
                if leaves.is_empty() || parents.is_empty() {
                    let t = mk(&mut src);
                    push_add(t, &mut ops, &mut terms, &mut n_terms);
                    continue;
                }
                let o = leaves[src.pick(leaves.len())];
                let par = parents[src.pick(parents.len())];
                let k = o.fields.len();
                let names: Vec<Name> = (0..k as Name).collect();
                let idp: BTreeMap<Name, Name> = names.iter().map(|n| (*n, *n)).collect();
                let leaf = |perm: &BTreeMap<Name, Name>| Tm::leaf(o.name, &names.iter().map(|n| perm[n]).collect::<Vec<_>>());
                let p1 = if src.coin(1, 2) { idp.clone() } else { random_perm(&names, &mut src) };
                let p2 = random_perm(&names, &mut src);
                let n_gen = src.pick(3);
                let gens: Vec<BTreeMap<Name, Name>> = (0..n_gen).map(|_| random_perm(&names, &mut src)).collect();
                let parent_first = src.coin(1, 2);
                let mk_parent = |src: &mut Src| -> Tm {
                    let mut args = Vec::new();
                    for i in 0..par.n_kids() {
                        let c = match i {
                            0 => leaf(&p1),
                            1 if par.n_kids() == 2 => leaf(&p2),
                            1 => {
                                let mut g = cfg.gen.clone();
                                g.max_depth = 1;
                                gen_tm(&sig, &g, src, 0)
                            }
                            _ => leaf(&p2),
                        };
                        args.push(Arg::K(vec![], c));
                    }
                    cap_fv(&Tm { op: par.name.to_string(), args }, cfg.gen.max_fv.max(k))
                };
                if parent_first {
                    let t = mk_parent(&mut src);
                    push_add(t, &mut ops, &mut terms, &mut n_terms);
                }
                let i0 = push_add(leaf(&idp), &mut ops, &mut terms, &mut n_terms);
                for g in &gens {
                    let j = push_add(leaf(g), &mut ops, &mut terms, &mut n_terms);
                    ops.push(if src.coin(1, 2) { HOp::Union(i0, j) } else { HOp::Union(j, i0) });
                }
                if !parent_first {
                    let t = mk_parent(&mut src);
                    push_add(t, &mut ops, &mut terms, &mut n_terms);
                }
            }
            12 => {
                // layered merge: two k-slot leaves A, B, each with 0-2 symmetry generators, parents ctx[A pi1] / ctx[B pi2] over them
                // (same context, so that they become congruent when A = B), optionally a further term T united with the parent
                // (the parent's e-node then lives in a class it was moved into), optionally a grandparent over the parent; the
                // events "generators of A", "generators of B", "parents", "T", "grandparent", "A = B" happen in a random order:
                // symmetries inherited through a merge or discovered through a moved e-node have to reach classes two levels up
                let kmax = cfg.gen.max_fv.max(3).min(4);
                let has = |n: &str| sig.ops.iter().any(|o| o.name == n);
                if !(has("g3") && has("h3") && has("w") && has("p") && has("v") && has("lam")) {
                    let t = mk(&mut src);
                    push_add(t, &mut ops, &mut terms, &mut n_terms);
                    continue;
                }
                let k = if kmax >= 4 && has("g4") && has("h4") && src.coin(1, 3) { 4 } else { 3 };
                let (ga, gb) = if k == 3 { ("g3", "h3") } else { ("g4", "h4") };
                let (ga, gb) = if src.coin(1, 4) { (ga, ga) } else if src.coin(1, 2) { (ga, gb) } else { (gb, ga) };
                let names: Vec<Name> = (0..k as Name).collect();
                let idp: BTreeMap<Name, Name> = names.iter().map(|n| (*n, *n)).collect();
                let leaf = |o: &str, perm: &BTreeMap<Name, Name>| Tm::leaf(o, &names.iter().map(|n| perm[n]).collect::<Vec<_>>());
                let kk = |t: Tm| Arg::K(vec![], t);
                // a context: (kind, name, permutation for a second use)
                let mk_ctx = |src: &mut Src| -> (usize, Name, BTreeMap<Name, Name>) { (src.pick(7), names[src.pick(k)], random_perm(&names, src)) };
                let fill = |(kind, x, tau): &(usize, Name, BTreeMap<Name, Name>), inner: &Tm| -> Tm {
                    match kind {
                        0 => Tm::node("w", vec![kk(inner.clone())]),
                        1 => Tm::node("p", vec![kk(inner.clone()), kk(Tm::leaf("v", &[*x]))]),
                        2 => Tm::node("p", vec![kk(Tm::leaf("v", &[*x])), kk(inner.clone())]),
                        3 => Tm::node("lam", vec![Arg::K(vec![*x], inner.clone())]),
                        4 => Tm::node("p", vec![kk(inner.clone()), kk(unfreshen(&inner.rename_free(tau)))]),
                        5 if has("q2") => Tm::node("q2", vec![Arg::S(*x), kk(inner.clone())]),
                        _ => Tm::node("w", vec![kk(Tm::node("w", vec![kk(inner.clone())]))]),
                    }
                };
                let c1 = mk_ctx(&mut src);
                let c2 = mk_ctx(&mut src);
                let pi1 = if src.coin(1, 2) { idp.clone() } else { random_perm(&names, &mut src) };
                let pi2 = if src.coin(1, 2) { idp.clone() } else { random_perm(&names, &mut src) };
                let rho = if src.coin(1, 2) { idp.clone() } else { random_perm(&names, &mut src) };
                let pa = fill(&c1, &leaf(ga, &pi1));
                let pb = fill(&c1, &leaf(gb, &pi2));
                let gp = fill(&c2, &unfreshen(&pa.rename_free(&rho)));
                let gens_a: Vec<BTreeMap<Name, Name>> = (0..src.pick(3)).map(|_| random_perm(&names, &mut src)).collect();
                let gens_b: Vec<BTreeMap<Name, Name>> = (0..src.pick(3)).map(|_| random_perm(&names, &mut src)).collect();
                let ia = push_add(leaf(ga, &idp), &mut ops, &mut terms, &mut n_terms);
                let ib = if ga == gb { ia } else { push_add(leaf(gb, &idp), &mut ops, &mut terms, &mut n_terms) };
                let mut events: Vec<usize> = (0..7).collect();
                for i in (1..events.len()).rev() {
                    let j = src.pick(i + 1);
                    events.swap(i, j);
                }
                let mut ipa: Option<usize> = None;
                for e in events {
                    match e {
                        0 => {
                            for g in &gens_a {
                                let j = push_add(leaf(ga, g), &mut ops, &mut terms, &mut n_terms);
                                ops.push(if src.coin(1, 2) { HOp::Union(ia, j) } else { HOp::Union(j, ia) });
                            }
                        }
                        1 => {
                            for g in &gens_b {
                                let j = push_add(leaf(gb, g), &mut ops, &mut terms, &mut n_terms);
                                ops.push(if src.coin(1, 2) { HOp::Union(ib, j) } else { HOp::Union(j, ib) });
                            }
                        }
                        2 => {
                            if ipa.is_none() {
                                ipa = Some(push_add(pa.clone(), &mut ops, &mut terms, &mut n_terms));
                            }
                        }
                        3 => {
                            if src.coin(2, 3) {
                                push_add(pb.clone(), &mut ops, &mut terms, &mut n_terms);
                            }
                        }
                        4 => {
                            // a further term over the parent's names, united with the parent
                            let fvp: Vec<Name> = pa.fv().into_iter().collect();
                            if src.coin(2, 3) && (2..=3).contains(&fvp.len()) {
                                let i = match ipa {
                                    Some(i) => i,
                                    None => {
                                        let i = push_add(pa.clone(), &mut ops, &mut terms, &mut n_terms);
                                        ipa = Some(i);
                                        i
                                    }
                                };
                                let sg = random_perm(&fvp, &mut src);
                                let args: Vec<Name> = fvp.iter().map(|n| if src.coin(1, 2) { *n } else { sg[n] }).collect();
                                let args: Vec<Name> = if args.iter().collect::<BTreeSet<_>>().len() == args.len() { args } else { fvp.clone() };
                                let o = if fvp.len() == 2 { "f2" } else if ga == "g3" && gb == "g3" { "h3" } else if k == 4 { "g3" } else { "f2" };
                                let t = if o == "f2" && fvp.len() == 3 { Tm::node("p", vec![kk(Tm::leaf("f2", &args[0..2])), kk(Tm::leaf("v", &args[2..3]))]) } else { Tm::leaf(o, &args) };
                                let j = push_add(t, &mut ops, &mut terms, &mut n_terms);
                                ops.push(if src.coin(1, 2) { HOp::Union(i, j) } else { HOp::Union(j, i) });
                                // extra members make either class the bigger one
                                for _ in 0..src.pick(3) {
                                    let e = Tm::node("w", vec![kk(Tm::node("w", vec![kk(terms[if src.coin(1, 2) { i } else { j }].clone())]))]);
                                    push_add(e, &mut ops, &mut terms, &mut n_terms);
                                }
                            }
                        }
                        5 => {
                            if src.coin(3, 4) {
                                push_add(gp.clone(), &mut ops, &mut terms, &mut n_terms);
                            }
                        }
                        _ => {
                            if ia != ib {
                                ops.push(if src.coin(1, 2) { HOp::Union(ia, ib) } else { HOp::Union(ib, ia) });
                            }
                        }
                    }
                }
            }
            9 => {
                // improving-child cascade: X = { C1[A], C2[A] } by an explicit union, T = { C2[B] } with some extra parents,
                // then A = B with B small: C2[A] and C2[B] become congruent (X and T merge inside one rebuild) while C1[A]
                // changes (its child got a smaller / different class datum) in the same rebuild
                let a = if n_terms > 0 && src.coin(1, 3) { terms[src.pick(n_terms)].clone() } else { mk(&mut src) };
                let b = {
                    let mut g = cfg.gen.clone();
                    g.max_depth = if src.coin(1, 2) { 0 } else { 1 };
                    cap_fv(&gen_tm(&sig, &g, &mut src, 0), cfg.gen.max_fv)
                };
                let ctx_ops: Vec<&OpSig> = sig
                    .ops
                    .iter()
                    .filter(|o| !o.is_leaf() && cfg.gen.ops.as_ref().map(|v| v.contains(&o.name)).unwrap_or(true))
                    .collect();
                if ctx_ops.is_empty() {
                    push_add(a, &mut ops, &mut terms, &mut n_terms);
                    continue;
                }
                // a context is an operator, the position of the hole, binder names and the sibling terms
                let mk_ctx = |src: &mut Src, sib_depth: usize| -> (usize, usize, Vec<Arg>) {
                    let oi = src.pick(ctx_ops.len());
                    let o = ctx_ops[oi];
                    let hole = src.pick(o.n_kids());
                    let mut args = Vec::new();
                    for f in &o.fields {
                        match f {
                            Field::Slot => args.push(Arg::S(src.pick(cfg.gen.alphabet as usize) as Name)),
                            Field::PayU32 => args.push(Arg::P("1".into())),
                            Field::PaySym => args.push(Arg::P("s".into())),
                            Field::PayOther(v) => args.push(Arg::P(v[0].to_string())),
                            Field::Kid(nb) => {
                                let mut bs = Vec::new();
                                for _ in 0..*nb {
                                    bs.push(src.pick(cfg.gen.alphabet as usize) as Name);
                                }
                                if bs.len() == 2 && bs[0] == bs[1] {
                                    bs[1] = (bs[1] + 1) % cfg.gen.alphabet.max(2);
                                }
                                let mut g = cfg.gen.clone();
                                g.max_depth = sib_depth;
                                args.push(Arg::K(bs, gen_tm(&sig, &g, src, 0)));
                            }
                        }
                    }
                    (oi, hole, args)
                };
                let fill = |(oi, hole, args): &(usize, usize, Vec<Arg>), inner: &Tm| -> Tm {
                    let mut kid = 0;
                    let args: Vec<Arg> = args
                        .iter()
                        .map(|x| match x {
                            Arg::K(bs, k) => {
                                let r = if kid == *hole { Arg::K(bs.clone(), inner.clone()) } else { Arg::K(bs.clone(), k.clone()) };
                                kid += 1;
                                r
                            }
                            o => o.clone(),
                        })
                        .collect();
                    cap_fv(&fix_same_node_shadowing(Tm { op: ctx_ops[*oi].name.to_string(), args }, 0), cfg.gen.max_fv + 1)
                };
                let c1 = mk_ctx(&mut src, 1);
                let c2 = mk_ctx(&mut src, 2);
                let i1 = push_add(fill(&c1, &a), &mut ops, &mut terms, &mut n_terms);
                let i2 = push_add(fill(&c2, &a), &mut ops, &mut terms, &mut n_terms);
                ops.push(if src.coin(1, 2) { HOp::Union(i1, i2) } else { HOp::Union(i2, i1) });
                let t = fill(&c2, &b);
                push_add(t.clone(), &mut ops, &mut terms, &mut n_terms);
                for _ in 0..src.pick(4) {
                    let c3 = mk_ctx(&mut src, 0);
                    push_add(fill(&c3, &t), &mut ops, &mut terms, &mut n_terms);
                }
                let ia = push_add(a, &mut ops, &mut terms, &mut n_terms);
                let ib = push_add(b, &mut ops, &mut terms, &mut n_terms);
                ops.push(if src.coin(1, 2) { HOp::Union(ia, ib) } else { HOp::Union(ib, ia) });
            }
            _ => {
                if n_terms >= 2 {
                    let i = src.pick(n_terms);
                    let j = src.pick(n_terms);
                    ops.push(HOp::Union(i, j));
                } else {
                    let t = mk(&mut src);
                    push_add(t, &mut ops, &mut terms, &mut n_terms);
                }
            }
        }
    }
    let naming = cfg.namings[(naming_choice as usize * cfg.namings.len()) >> 16].clone();
    Hist { lang: cfg.lang, naming, ops }
}

/// `rename_free` moves bound names to >= 100; bring them back into a printable range that is
/// disjoint from the alphabet (names 40..)
pub fn unfreshen(t: &Tm) -> Tm {
    t.rename_all(&|n| if n >= 100 { 40 + (n - 100) } else { n })
}

pub fn hist_strategy(cfg: HistCfg) -> BoxedStrategy<Hist> {
    let max_ops = cfg.max_ops;
    (
        proptest::collection::vec(proptest::collection::vec(any::<u16>(), 0..40), 1..=max_ops),
        any::<u16>(),
    )
        .prop_map(move |(chunks, nc)| decode_hist(&cfg, &chunks, nc))
        .boxed()
}

impl Hist {
    /// "add (f2 $a $b); add (f2 $b $a); union 0 1"
    pub fn from_script(lang: LangId, script: &str) -> Result<Hist, String> {
        let sig = lang.sig();
        let mut ops = Vec::new();
        for cmd in script.split(';') {
            let cmd = cmd.trim();
            if cmd.is_empty() {
                continue;
            }
            let (op, rest) = cmd.split_once(' ').unwrap_or((cmd, ""));
            match op {
                "add" => ops.push(HOp::Add(parse_tm_text(&sig, rest)?)),
                "union" => {
                    let v: Vec<usize> = rest.split_whitespace().filter_map(|x| x.parse().ok()).collect();
                    if v.len() != 2 {
                        return Err(format!("bad union: {cmd}"));
                    }
                    ops.push(HOp::Union(v[0], v[1]));
                }
                _ => return Err(format!("unknown command {op}")),
            }
        }
        Ok(Hist { lang, naming: Naming::Alpha, ops })
    }
}
