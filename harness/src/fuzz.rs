//! Glue for the libFuzzer targets (cargo-fuzz crate in /verif/fuzz): every input is decoded to the
//! same structured case types the proptest stages use and judged by the same run functions.
use crate::engine::*;
use serde::Serialize;
use std::sync::Once;

static INIT: Once = Once::new();

/// Runs one decoded case in a fresh thread (like every other engine).  On a violation the case is
/// written as a replay file, a marker line is printed and the process aborts, so that libFuzzer
/// records the input.  libfuzzer-sys installs an aborting panic hook; it is replaced on first use.
pub fn fuzz_case<C: Clone + Send + Serialize + 'static>(prop: &str, stage: &str, run: RunFn<C>, panic_is_violation: bool, case: &C) {
    INIT.call_once(install_panic_hook);
    let msg = match exec_case(case, run, 300) {
        CaseOutcome::Pass(_) => return,
        CaseOutcome::Fail(m, _) => m,
        CaseOutcome::Panic(m, _) => {
            if !panic_is_violation {
                return;
            }
            m
        }
        CaseOutcome::Timeout => return, // a slow input is not a violation
    };
    let f = Failure { stage: stage.to_string(), message: msg.clone(), case_json: serde_json::to_value(case).unwrap(), rendered: String::new(), shard: 0 };
    let path = crate::report::write_replay(prop, &f);
    eprintln!("SEV-FUZZ-VIOLATION property={} replay={} :: {}", prop, path.display(), msg);
    std::process::abort();
}

/// Generic target: SEV_FUZZ_PROP names the property (stages that start other processes - C20's process replays - are
/// left to the proptest engine: the fuzz binary is not the `sev` binary they re-execute); the first byte selects one of its random stages, the rest
/// is the random stream of that stage's strategy.
pub fn fuzz_property(data: &[u8]) {
    use std::sync::OnceLock;
    static PROP: OnceLock<(String, Vec<Box<dyn DynStage>>)> = OnceLock::new();
    INIT.call_once(install_panic_hook);
    let (id, stages) = PROP.get_or_init(|| {
        let id = std::env::var("SEV_FUZZ_PROP").expect("SEV_FUZZ_PROP");
        let tier = if std::env::var("SEV_FUZZ_TIER").as_deref() == Ok("quick") { Tier::Quick } else { Tier::Thorough };
        let p = crate::props::property(&id, tier).expect("unknown property");
        let stages: Vec<Box<dyn DynStage>> = p.stages.into_iter().filter(|s| s.is_random() && !s.name().starts_with("processes")).collect();
        assert!(!stages.is_empty(), "no random stage");
        (id, stages)
    });
    if data.len() < 2 {
        return;
    }
    let st = &stages[data[0] as usize % stages.len()];
    if let Some(Some(f)) = st.fuzz_one(&data[1..]) {
        let path = crate::report::write_replay(id, &f);
        eprintln!("SEV-FUZZ-VIOLATION property={} replay={} :: {}", id, path.display(), f.message);
        std::process::abort();
    }
}
