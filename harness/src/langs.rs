//! Languages built with the real `define_language!` macro, plus their model signatures.

use crate::tm::{op, Field, LangSig};
#[allow(non_upper_case_globals)]
const Kid: fn(u8) -> Field = Field::Kid;
#[allow(non_upper_case_globals)]
const PayU32: Field = Field::PayU32;
#[allow(non_upper_case_globals)]
const PaySym: Field = Field::PaySym;
#[allow(non_upper_case_globals)]
const SlotF: Field = Field::Slot;
use serde::{Deserialize, Serialize};
use slotted_egraphs::*;

define_language! {
    pub enum Core {
        V(Slot) = "v",
        F2(Slot, Slot) = "f2",
        G3(Slot, Slot, Slot) = "g3",
        G4(Slot, Slot, Slot, Slot) = "g4",
        G5(Slot, Slot, Slot, Slot, Slot) = "g5",
        G6(Slot, Slot, Slot, Slot, Slot, Slot) = "g6",
        H3(Slot, Slot, Slot) = "h3",
        H4(Slot, Slot, Slot, Slot) = "h4",
        C0() = "c0",
        C1() = "c1",
        W(AppliedId) = "w",
        P(AppliedId, AppliedId) = "p",
        T3(AppliedId, AppliedId, AppliedId) = "t3",
        Q2(Slot, AppliedId) = "q2",
        Lam(Bind<AppliedId>) = "lam",
        Let(Bind<AppliedId>, AppliedId) = "let",
        Sum2(AppliedId, Bind<Bind<AppliedId>>) = "sum2",
        Bb(Bind<AppliedId>, Bind<AppliedId>) = "bb",
        Num(u32),
    }
}

define_language! {
    pub enum Lambda {
        Lam(Bind<AppliedId>) = "lam",
        App(AppliedId, AppliedId) = "app",
        Var(Slot) = "var",
        Let(Bind<AppliedId>, AppliedId) = "let",
    }
}

define_language! {
    pub enum Arith {
        Lam(Bind<AppliedId>) = "lam",
        App(AppliedId, AppliedId) = "app",
        Var(Slot) = "var",
        Let(Bind<AppliedId>, AppliedId) = "let",
        Add(AppliedId, AppliedId) = "add",
        Mul(AppliedId, AppliedId) = "mul",
        Number(u32),
        Symbol(Symbol),
    }
}

define_language! {
    pub enum Arith2 {
        Var(Slot) = "var",
        F(AppliedId, AppliedId) = "f",
        Sub(AppliedId, AppliedId) = "sub",
        Zero() = "zero",
    }
}

define_language! {
    pub enum Fgh {
        F(Slot, Slot) = "f",
        G(Slot, Slot) = "g",
        H(Slot, Slot) = "h",
    }
}

define_language! {
    pub enum VarL {
        F(Slot, Slot) = "f",
    }
}

define_language! {
    pub enum Sdql {
        Lam(Bind<AppliedId>) = "lambda",
        Var(Slot) = "var",
        Sing(AppliedId, AppliedId) = "sing",
        Sum(AppliedId, Bind<Bind<AppliedId>>) = "sum",
    }
}

define_language! {
    pub enum ArrayLang {
        Lam(Slot, AppliedId) = "lam",
        App(AppliedId, AppliedId) = "app",
        Var(Slot) = "var",
        Let(Bind<AppliedId>, AppliedId) = "let",
        Number(u32),
        Symbol(Symbol),
    }
}

define_language! {
    pub enum Rise {
        Lam(Bind<AppliedId>) = "lam",
        App(AppliedId, AppliedId) = "app",
        Var(Slot) = "var",
        Let(Bind<AppliedId>, AppliedId) = "let",
        Number(u32),
        Symbol(Symbol),
    }
}

// arithmetic over a prime field with a summation binder and a let binder (C03, C14, C15)
define_language! {
    pub enum Fp {
        Var(Slot) = "var",
        Add(AppliedId, AppliedId) = "add",
        Mul(AppliedId, AppliedId) = "mul",
        Neg(AppliedId) = "neg",
        Sum(Bind<AppliedId>) = "sum",
        Let(Bind<AppliedId>, AppliedId) = "let",
        Num(u32),
    }
}

// payload types other than u32 / Symbol, and a payload next to a slot and a (bound) child inside one named variant
define_language! {
    pub enum Pay {
        Neg(AppliedId) = "neg",
        Tag(u32, Slot, AppliedId) = "tag",
        Scope(bool, Bind<AppliedId>) = "scope",
        Lbl(Symbol, u32, AppliedId) = "lbl",
        Pr(bool, i64) = "pr",
        At(Slot) = "at",
        Lit(i64),
        Flag(bool),
        Ch(char),
    }
}

// operators with more argument positions than the parser's 8-bit payload mask (and than most inline capacities)
define_language! {
    pub enum Wide {
        Wd(AppliedId, AppliedId, AppliedId, AppliedId, AppliedId, AppliedId, AppliedId, AppliedId, AppliedId, AppliedId) = "wd",
        Wm(u32, Slot, AppliedId, AppliedId, AppliedId, AppliedId, AppliedId, AppliedId, AppliedId, Bind<AppliedId>) = "wm",
        V(Slot) = "v",
        C0() = "c0",
        Num(u32),
    }
}

#[derive(Clone, Copy, Debug, PartialEq, Eq, Hash, PartialOrd, Ord, Serialize, Deserialize)]
pub enum LangId {
    Core,
    Lambda,
    Arith,
    Arith2,
    Fgh,
    VarL,
    Sdql,
    ArrayLang,
    Rise,
    Fp,
    Pay,
    Wide,
}

pub const ALL_LANGS: &[LangId] = &[
    LangId::Core,
    LangId::Lambda,
    LangId::Arith,
    LangId::Arith2,
    LangId::Fgh,
    LangId::VarL,
    LangId::Sdql,
    LangId::ArrayLang,
    LangId::Rise,
    LangId::Fp,
    LangId::Pay,
    LangId::Wide,
];

impl LangId {
    pub fn sig(self) -> LangSig {
        match self {
            LangId::Core => LangSig {
                name: "Core",
                ops: vec![
                    op("v", &[SlotF]),
                    op("c0", &[]),
                    op("f2", &[SlotF, SlotF]),
                    op("g3", &[SlotF, SlotF, SlotF]),
                    op("c1", &[]),
                    op("g4", &[SlotF, SlotF, SlotF, SlotF]),
                    op("g5", &[SlotF, SlotF, SlotF, SlotF, SlotF]),
                    op("g6", &[SlotF, SlotF, SlotF, SlotF, SlotF, SlotF]),
                    op("h3", &[SlotF, SlotF, SlotF]),
                    op("h4", &[SlotF, SlotF, SlotF, SlotF]),
                    op("", &[PayU32]),
                    op("w", &[Kid(0)]),
                    op("p", &[Kid(0), Kid(0)]),
                    op("lam", &[Kid(1)]),
                    op("let", &[Kid(1), Kid(0)]),
                    op("sum2", &[Kid(0), Kid(2)]),
                    op("t3", &[Kid(0), Kid(0), Kid(0)]),
                    op("q2", &[SlotF, Kid(0)]),
                    // two sibling scopes in one node (the same bound name may be used in both)
                    op("bb", &[Kid(1), Kid(1)]),
                ],
            },
            LangId::Lambda => LangSig {
                name: "Lambda",
                ops: vec![
                    op("var", &[SlotF]),
                    op("lam", &[Kid(1)]),
                    op("app", &[Kid(0), Kid(0)]),
                    op("let", &[Kid(1), Kid(0)]),
                ],
            },
            LangId::Arith => LangSig {
                name: "Arith",
                ops: vec![
                    op("var", &[SlotF]),
                    op("", &[PayU32]),
                    op("", &[PaySym]),
                    op("lam", &[Kid(1)]),
                    op("app", &[Kid(0), Kid(0)]),
                    op("let", &[Kid(1), Kid(0)]),
                    op("add", &[Kid(0), Kid(0)]),
                    op("mul", &[Kid(0), Kid(0)]),
                ],
            },
            LangId::Arith2 => LangSig {
                name: "Arith2",
                ops: vec![
                    op("var", &[SlotF]),
                    op("zero", &[]),
                    op("f", &[Kid(0), Kid(0)]),
                    op("sub", &[Kid(0), Kid(0)]),
                ],
            },
            LangId::Fgh => LangSig {
                name: "Fgh",
                ops: vec![op("f", &[SlotF, SlotF]), op("g", &[SlotF, SlotF]), op("h", &[SlotF, SlotF])],
            },
            LangId::VarL => LangSig { name: "VarL", ops: vec![op("f", &[SlotF, SlotF])] },
            LangId::Sdql => LangSig {
                name: "Sdql",
                ops: vec![
                    op("var", &[SlotF]),
                    op("lambda", &[Kid(1)]),
                    op("sing", &[Kid(0), Kid(0)]),
                    op("sum", &[Kid(0), Kid(2)]),
                ],
            },
            LangId::ArrayLang => LangSig {
                name: "ArrayLang",
                ops: vec![
                    op("var", &[SlotF]),
                    op("", &[PayU32]),
                    op("", &[PaySym]),
                    op("lam", &[SlotF, Kid(0)]),
                    op("app", &[Kid(0), Kid(0)]),
                    op("let", &[Kid(1), Kid(0)]),
                ],
            },
            LangId::Rise => LangSig {
                name: "Rise",
                ops: vec![
                    op("var", &[SlotF]),
                    op("", &[PayU32]),
                    op("", &[PaySym]),
                    op("lam", &[Kid(1)]),
                    op("app", &[Kid(0), Kid(0)]),
                    op("let", &[Kid(1), Kid(0)]),
                ],
            },
            LangId::Pay => LangSig {
                name: "Pay",
                ops: vec![
                    op("at", &[SlotF]),
                    op("", &[Field::PayOther(&["7", "-3", "0", "123456789012"])]),
                    op("", &[Field::PayOther(&["true", "false"])]),
                    op("", &[Field::PayOther(&["x", "q", "Z", "_"])]),
                    op("neg", &[Kid(0)]),
                    op("tag", &[PayU32, SlotF, Kid(0)]),
                    op("scope", &[Field::PayOther(&["true", "false"]), Kid(1)]),
                    // two payload fields in one variant; the first of `lbl` is sometimes spelled like a term of the language
                    // (a single character is a `Ch` literal), sometimes not; the second always is (a number is a `Lit`)
                    op("lbl", &[PaySym, PayU32, Kid(0)]),
                    op("pr", &[Field::PayOther(&["true", "false"]), Field::PayOther(&["7", "-3", "0", "123456789012"])]),
                ],
            },
            LangId::Wide => LangSig {
                name: "Wide",
                ops: vec![
                    op("v", &[SlotF]),
                    op("c0", &[]),
                    op("", &[PayU32]),
                    op("wd", &[Kid(0), Kid(0), Kid(0), Kid(0), Kid(0), Kid(0), Kid(0), Kid(0), Kid(0), Kid(0)]),
                    op("wm", &[PayU32, SlotF, Kid(0), Kid(0), Kid(0), Kid(0), Kid(0), Kid(0), Kid(0), Kid(1)]),
                ],
            },
            LangId::Fp => LangSig {
                name: "Fp",
                ops: vec![
                    op("var", &[SlotF]),
                    op("", &[PayU32]),
                    op("neg", &[Kid(0)]),
                    op("add", &[Kid(0), Kid(0)]),
                    op("mul", &[Kid(0), Kid(0)]),
                    op("sum", &[Kid(1)]),
                    op("let", &[Kid(1), Kid(0)]),
                ],
            },
        }
    }
}

/// Dispatch on a LangId: binds the type alias `$L` in `$body`.
#[macro_export]
macro_rules! with_lang {
    ($id:expr, $L:ident => $body:expr) => {
        match $id {
            $crate::langs::LangId::Core => {
                type $L = $crate::langs::Core;
                $body
            }
            $crate::langs::LangId::Lambda => {
                type $L = $crate::langs::Lambda;
                $body
            }
            $crate::langs::LangId::Arith => {
                type $L = $crate::langs::Arith;
                $body
            }
            $crate::langs::LangId::Arith2 => {
                type $L = $crate::langs::Arith2;
                $body
            }
            $crate::langs::LangId::Fgh => {
                type $L = $crate::langs::Fgh;
                $body
            }
            $crate::langs::LangId::VarL => {
                type $L = $crate::langs::VarL;
                $body
            }
            $crate::langs::LangId::Sdql => {
                type $L = $crate::langs::Sdql;
                $body
            }
            $crate::langs::LangId::ArrayLang => {
                type $L = $crate::langs::ArrayLang;
                $body
            }
            $crate::langs::LangId::Rise => {
                type $L = $crate::langs::Rise;
                $body
            }
            $crate::langs::LangId::Fp => {
                type $L = $crate::langs::Fp;
                $body
            }
            $crate::langs::LangId::Pay => {
                type $L = $crate::langs::Pay;
                $body
            }
            $crate::langs::LangId::Wide => {
                type $L = $crate::langs::Wide;
                $body
            }
        }
    };
}
