//! Model patterns: `Tm` with pattern variables (op "?", payload = name) and the substitution form
//! (op ":=", three children b, x, t meaning b[x := t]).  Parsing from the library's pattern syntax,
//! instantiation with capture-avoiding substitution on model terms.

use crate::tm::*;
use std::collections::{BTreeMap, BTreeSet};

pub fn pvar(n: &str) -> Tm {
    Tm { op: "?".into(), args: vec![Arg::P(n.to_string())] }
}
pub fn is_pvar(t: &Tm) -> bool {
    t.op == "?"
}
pub fn is_subst(t: &Tm) -> bool {
    t.op == ":="
}
pub fn pvar_name(t: &Tm) -> &str {
    match &t.args[0] {
        Arg::P(n) => n,
        _ => panic!(),
    }
}

fn tokenize(text: &str) -> Vec<String> {
    let mut out = Vec::new();
    let mut cur = String::new();
    let cs: Vec<char> = text.chars().collect();
    let mut i = 0;
    while i < cs.len() {
        let c = cs[i];
        if c.is_whitespace() {
            if !cur.is_empty() {
                out.push(std::mem::take(&mut cur));
            }
        } else if "()[]".contains(c) {
            if !cur.is_empty() {
                out.push(std::mem::take(&mut cur));
            }
            out.push(c.to_string());
        } else {
            cur.push(c);
        }
        i += 1;
    }
    if !cur.is_empty() {
        out.push(cur);
    }
    out
}

pub fn parse_pat_text(sig: &LangSig, text: &str) -> Result<Tm, String> {
    let toks = tokenize(text);
    let mut pos = 0;
    let t = parse_pat(sig, &toks, &mut pos)?;
    if pos != toks.len() {
        return Err(format!("trailing tokens in pattern {text}"));
    }
    Ok(t)
}

fn parse_pat(sig: &LangSig, toks: &[String], pos: &mut usize) -> Result<Tm, String> {
    let mut t = parse_pat_nosubst(sig, toks, pos)?;
    while toks.get(*pos).map(|s| s.as_str()) == Some("[") {
        *pos += 1;
        let x = parse_pat(sig, toks, pos)?;
        if toks.get(*pos).map(|s| s.as_str()) != Some(":=") {
            return Err("expected :=".into());
        }
        *pos += 1;
        let e = parse_pat(sig, toks, pos)?;
        if toks.get(*pos).map(|s| s.as_str()) != Some("]") {
            return Err("expected ]".into());
        }
        *pos += 1;
        t = Tm { op: ":=".into(), args: vec![Arg::K(vec![], t), Arg::K(vec![], x), Arg::K(vec![], e)] };
    }
    Ok(t)
}

fn parse_pat_nosubst(sig: &LangSig, toks: &[String], pos: &mut usize) -> Result<Tm, String> {
    let t = toks.get(*pos).ok_or("unexpected end")?.clone();
    if let Some(v) = t.strip_prefix('?') {
        *pos += 1;
        return Ok(pvar(v));
    }
    if t == "(" {
        *pos += 1;
        let opn = toks.get(*pos).ok_or("unexpected end")?.clone();
        *pos += 1;
        let o = sig.op(&opn).ok_or(format!("unknown operator {opn}"))?.clone();
        let mut args = Vec::new();
        for f in &o.fields {
            match f {
                Field::Slot => {
                    let s = toks.get(*pos).ok_or("unexpected end")?;
                    args.push(Arg::S(name_of_alpha(s).ok_or(format!("bad slot {s}"))?));
                    *pos += 1;
                }
                Field::PayU32 | Field::PaySym | Field::PayOther(_) => {
                    args.push(Arg::P(toks.get(*pos).ok_or("unexpected end")?.clone()));
                    *pos += 1;
                }
                Field::Kid(nb) => {
                    let mut bs = Vec::new();
                    for _ in 0..*nb {
                        let s = toks.get(*pos).ok_or("unexpected end")?;
                        bs.push(name_of_alpha(s).ok_or(format!("bad slot {s}"))?);
                        *pos += 1;
                    }
                    args.push(Arg::K(bs, parse_pat(sig, toks, pos)?));
                }
            }
        }
        if toks.get(*pos).map(|s| s.as_str()) != Some(")") {
            return Err(format!("expected ) at token {}", *pos));
        }
        *pos += 1;
        Ok(Tm { op: opn, args })
    } else {
        *pos += 1;
        if let Some(o) = sig.op(&t) {
            if o.fields.is_empty() {
                return Ok(Tm { op: t, args: vec![] });
            }
        }
        Ok(Tm { op: String::new(), args: vec![Arg::P(t)] })
    }
}

/// pattern variables with, for each, the set of pattern-bound names in scope at *every* occurrence
pub fn pvars_scopes(p: &Tm) -> BTreeMap<String, BTreeSet<Name>> {
    fn go(p: &Tm, scope: &mut Vec<Name>, out: &mut BTreeMap<String, BTreeSet<Name>>) {
        if is_pvar(p) {
            let s: BTreeSet<Name> = scope.iter().copied().collect();
            out.entry(pvar_name(p).to_string()).and_modify(|e| *e = e.intersection(&s).copied().collect()).or_insert(s);
            return;
        }
        for a in &p.args {
            if let Arg::K(bs, k) = a {
                let l = scope.len();
                scope.extend(bs.iter().copied());
                go(k, scope, out);
                scope.truncate(l);
            }
        }
    }
    let mut out = BTreeMap::new();
    go(p, &mut Vec::new(), &mut out);
    out
}

/// free (pattern-level) slot names of a pattern, ignoring pattern variables
pub fn pat_free_slots(p: &Tm) -> BTreeSet<Name> {
    fn go(p: &Tm, bound: &mut Vec<Name>, out: &mut BTreeSet<Name>) {
        if is_pvar(p) {
            return;
        }
        for a in &p.args {
            match a {
                Arg::S(n) => {
                    if !bound.contains(n) {
                        out.insert(*n);
                    }
                }
                Arg::K(bs, k) => {
                    let l = bound.len();
                    bound.extend(bs.iter().copied());
                    go(k, bound, out);
                    bound.truncate(l);
                }
                _ => {}
            }
        }
    }
    let mut out = BTreeSet::new();
    go(p, &mut Vec::new(), &mut out);
    out
}

pub fn pat_bound_slots(p: &Tm) -> Vec<Name> {
    let mut out = Vec::new();
    for s in p.subterms() {
        for a in &s.args {
            if let Arg::K(bs, _) = a {
                out.extend(bs.iter().copied());
            }
        }
    }
    out
}

/// Capture-avoiding substitution on model terms: b[(var_op x) := e]: every free occurrence of the
/// leaf `(var_op $x)` in b is replaced by e.  Binders in b that would capture a free name of e
/// are renamed (to names >= `fresh`).
pub fn subst_var(b: &Tm, var_op: &str, x: Name, e: &Tm, fresh: &mut Name) -> Tm {
    if b.op == var_op && b.args.len() == 1 {
        if let Arg::S(n) = &b.args[0] {
            if *n == x {
                return e.clone();
            }
        }
    }
    let efv = e.fv();
    let mut args = Vec::new();
    for a in &b.args {
        match a {
            Arg::K(bs, k) => {
                if bs.contains(&x) {
                    // x is rebound: no substitution below
                    args.push(a.clone());
                    continue;
                }
                let mut k2 = k.clone();
                let mut nbs = bs.clone();
                for (i, bn) in bs.iter().enumerate() {
                    if efv.contains(bn) && k.fv().contains(&x) {
                        let nb = *fresh;
                        *fresh += 1;
                        let mut m = BTreeMap::new();
                        m.insert(*bn, nb);
                        // rename the bound name inside its scope (only if not rebound later in the same list)
                        if !bs[i + 1..].contains(bn) {
                            k2 = rename_free_simple(&k2, &m);
                        }
                        nbs[i] = nb;
                    }
                }
                args.push(Arg::K(nbs, subst_var(&k2, var_op, x, e, fresh)));
            }
            o => args.push(o.clone()),
        }
    }
    Tm { op: b.op.clone(), args }
}

/// Instantiate a pattern: pattern variables by `sigma`, pattern slots by `rho` (bound pattern slots
/// are left as they are - rho must only mention free pattern slots).  `var_op` is the operator of
/// variable leaves used by the substitution form.
pub fn instantiate(p: &Tm, sigma: &BTreeMap<String, Tm>, rho: &BTreeMap<Name, Name>, var_op: &str, fresh: &mut Name) -> Result<Tm, String> {
    fn go(p: &Tm, sigma: &BTreeMap<String, Tm>, rho: &BTreeMap<Name, Name>, bound: &mut Vec<Name>, var_op: &str, fresh: &mut Name) -> Result<Tm, String> {
        if is_pvar(p) {
            return sigma.get(pvar_name(p)).cloned().ok_or_else(|| format!("unbound pattern variable {}", pvar_name(p)));
        }
        if is_subst(p) {
            let ks = p.kids();
            let b = go(ks[0].1, sigma, rho, bound, var_op, fresh)?;
            let x = go(ks[1].1, sigma, rho, bound, var_op, fresh)?;
            let e = go(ks[2].1, sigma, rho, bound, var_op, fresh)?;
            if x.op != var_op {
                return Err("substitution target is not a variable leaf".into());
            }
            let Arg::S(xn) = &x.args[0] else { return Err("bad variable leaf".into()) };
            return Ok(subst_var(&b, var_op, *xn, &e, fresh));
        }
        let mut args = Vec::new();
        for a in &p.args {
            match a {
                Arg::S(n) => args.push(Arg::S(if bound.contains(n) { *n } else { *rho.get(n).unwrap_or(n) })),
                Arg::P(s) => args.push(Arg::P(s.clone())),
                Arg::K(bs, k) => {
                    let l = bound.len();
                    bound.extend(bs.iter().copied());
                    let k2 = go(k, sigma, rho, bound, var_op, fresh)?;
                    bound.truncate(l);
                    args.push(Arg::K(bs.clone(), k2));
                }
            }
        }
        Ok(Tm { op: p.op.clone(), args })
    }
    go(p, sigma, rho, &mut Vec::new(), var_op, fresh)
}

pub fn render_pat(t: &Tm, nm: &Naming) -> String {
    if is_pvar(t) {
        return format!("?{}", pvar_name(t));
    }
    if is_subst(t) {
        let ks = t.kids();
        return format!("{}[{} := {}]", render_pat(ks[0].1, nm), render_pat(ks[1].1, nm), render_pat(ks[2].1, nm));
    }
    let mut parts: Vec<String> = Vec::new();
    if !t.op.is_empty() {
        parts.push(t.op.clone());
    }
    for a in &t.args {
        match a {
            Arg::S(n) => parts.push(nm.slot(*n)),
            Arg::P(p) => parts.push(p.clone()),
            Arg::K(bs, k) => {
                for b in bs {
                    parts.push(nm.slot(*b));
                }
                parts.push(render_pat(k, nm));
            }
        }
    }
    if parts.len() == 1 {
        parts[0].clone()
    } else {
        format!("({})", parts.join(" "))
    }
}
