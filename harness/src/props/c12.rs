//! C12 — the result does not depend on the order of insertions and unions.
use crate::egx::*;
use crate::engine::*;
use crate::hist::*;
use crate::langs::*;
use crate::tm::*;
use proptest::prelude::*;
use serde::{Deserialize, Serialize};
use slotted_egraphs::*;

#[derive(Clone, Debug, PartialEq, Eq, Hash, Serialize, Deserialize)]
pub struct OrderCase {
    pub hist: Hist,
    /// choices driving the second schedule
    pub perm: Vec<u16>,
    pub flips: Vec<bool>,
}

/// second schedule: a random topological order of the operations (each add before the unions that use it), unions flipped
pub fn reschedule(h: &Hist, perm: &[u16], flips: &[bool]) -> (Vec<HOp>, Vec<usize>) {
    // returns ops and, for each add in the new order, its original term index
    let mut term_idx_of_op: Vec<Option<usize>> = Vec::new();
    let mut n = 0;
    for o in &h.ops {
        match o {
            HOp::Add(_) => {
                term_idx_of_op.push(Some(n));
                n += 1;
            }
            _ => term_idx_of_op.push(None),
        }
    }
    let mut remaining: Vec<usize> = (0..h.ops.len()).collect();
    let mut done_terms: Vec<usize> = Vec::new(); // original term indices in new order
    let mut out = Vec::new();
    let mut k = 0usize;
    let mut u = 0usize;
    while !remaining.is_empty() {
        let ready: Vec<usize> = remaining
            .iter()
            .copied()
            .filter(|i| match &h.ops[*i] {
                HOp::Add(_) => true,
                HOp::Union(a, b) => done_terms.contains(a) && done_terms.contains(b),
            })
            .collect();
        let c = perm.get(k).copied().unwrap_or(0) as usize;
        k += 1;
        let pick = ready[(c * ready.len()) >> 16];
        remaining.retain(|x| *x != pick);
        match &h.ops[pick] {
            HOp::Add(t) => {
                done_terms.push(term_idx_of_op[pick].unwrap());
                out.push(HOp::Add(t.clone()));
            }
            HOp::Union(a, b) => {
                let na = done_terms.iter().position(|x| x == a).unwrap();
                let nb = done_terms.iter().position(|x| x == b).unwrap();
                let flip = flips.get(u).copied().unwrap_or(false);
                u += 1;
                out.push(if flip { HOp::Union(nb, na) } else { HOp::Union(na, nb) });
            }
        }
    }
    (out, done_terms)
}

#[derive(Debug, PartialEq, Eq)]
struct Outcome {
    partition: Vec<usize>,
    live: usize,
    slot_counts: Vec<usize>,
    sym_counts: Vec<usize>,
}

fn execute<L: Language, N: Analysis<L> + Default>(ops: &[HOp], order: &[usize], nm: &Naming) -> Outcome {
    let mut eg: EGraph<L, N> = EGraph::new(N::default());
    let mut ids: Vec<AppliedId> = Vec::new();
    for o in ops {
        match o {
            HOp::Add(t) => ids.push(eg.add_expr(parse_tm::<L>(t, nm))),
            HOp::Union(i, j) => {
                let (a, b) = (ids[*i].clone(), ids[*j].clone());
                eg.union(&a, &b);
            }
        }
    }
    // bring handles back into the original term order
    let mut by_orig: Vec<Option<AppliedId>> = vec![None; ids.len()];
    for (pos, orig) in order.iter().enumerate() {
        by_orig[*orig] = Some(ids[pos].clone());
    }
    let hs: Vec<AppliedId> = by_orig.into_iter().map(|x| x.unwrap()).collect();
    let fp = crate::fp::fingerprint(&eg, &hs);
    Outcome { partition: fp.partition, live: fp.live, slot_counts: fp.slot_counts, sym_counts: fp.sym_counts }
}

fn run(c: &OrderCase, obs: &mut Obs) -> Result<(), String> {
    crate::with_lang!(c.hist.lang, L => run_l::<L, ()>(c, obs))
}

fn run_analysis(c: &OrderCase, obs: &mut Obs) -> Result<(), String> {
    crate::with_lang!(c.hist.lang, L => run_l::<L, crate::analyses::MinSize>(c, obs))
}

fn run_l<L: Language, N: Analysis<L> + Default>(c: &OrderCase, obs: &mut Obs) -> Result<(), String> {
    let nm = &c.hist.naming;
    let n_terms = c.hist.terms().len();
    let id_order: Vec<usize> = (0..n_terms).collect();
    let o1 = execute::<L, N>(&c.hist.ops, &id_order, nm);
    let (ops2, order2) = reschedule(&c.hist, &c.perm, &c.flips);
    let o2 = execute::<L, N>(&ops2, &order2, nm);
    obs.cmp(4);
    if o1 != o2 {
        let h2 = Hist { lang: c.hist.lang, naming: nm.clone(), ops: ops2 };
        return Err(format!("two schedules of the same equations differ:\n  A: {}\n     {:?}\n  B: {}  (term order {:?})\n     {:?}", c.hist.render(), o1, h2.render(), order2, o2));
    }
    // non-trivial: >= 3 unions and the schedules differ in the order of two unions
    let unions1: Vec<(usize, usize)> = c.hist.ops.iter().filter_map(|o| if let HOp::Union(a, b) = o { Some((*a.min(b), *a.max(b))) } else { None }).collect();
    let unions2: Vec<(usize, usize)> = ops2.iter().filter_map(|o| if let HOp::Union(a, b) = o { let (x, y) = (order2[*a], order2[*b]); Some((x.min(y), x.max(y))) } else { None }).collect();
    if unions1 != unions2 {
        obs.label("union-order-differs");
    }
    if c.flips.iter().take(unions1.len()).any(|f| *f) {
        obs.label("flipped");
    }
    obs.nontrivial = unions1.len() >= 3 && unions1 != unions2;
    Ok(())
}

fn strategy(lang: LangId, max_ops: usize) -> BoxedStrategy<OrderCase> {
    let mut cfg = HistCfg::for_lang(lang);
    cfg.namings = Naming::diverse();
    cfg.max_ops = max_ops;
    (hist_strategy(cfg), proptest::collection::vec(any::<u16>(), 0..40), proptest::collection::vec(any::<bool>(), 0..16))
        .prop_map(|(hist, perm, flips)| OrderCase { hist, perm, flips })
        .boxed()
}

pub fn property(tier: Tier) -> Property {
    let mut stages: Vec<Box<dyn DynStage>> = Vec::new();
    for (name, lang, q, t) in [("order-core", LangId::Core, 12000u32, 300_000u32), ("order-lambda", LangId::Lambda, 3000, 60_000), ("order-fgh", LangId::Fgh, 3000, 60_000), ("order-sdql", LangId::Sdql, 2000, 40_000)] {
        let max_ops = tier.pick(7, 10);
        stages.push(Box::new(Stage {
            name,
            source: random(move || strategy(lang, max_ops), tier.pick(q, t)),
            run,
            panic_is_violation: false,
            render: |c: &OrderCase| format!("{} perm={:?} flips={:?}", c.hist.render(), c.perm, c.flips),
            rule: "a history of insertions and unions executed twice: as generated, and in a random topological re-ordering (each insertion before its first use) with random orientation flips; compared: eq-partition of all inserted terms, live classes, per-term slot and symmetry counts; non-trivial = at least 3 unions and the two schedules order them differently; distinct by rendered case",
            case_timeout_s: tier.pick(30, 120),
            exhaustive: false,
        }));
    }
    {
        let max_ops = tier.pick(6, 9);
        let wide = move || {
            let mut cfg = HistCfg::core();
            cfg.namings = Naming::diverse();
            cfg.max_ops = max_ops;
            cfg.gen.alphabet = 5;
            cfg.gen.max_fv = 5;
            cfg.gen.max_depth = 2;
            cfg.gen.ops = Some(vec!["v", "f2", "g3", "g4", "h4", "g5", "c0", "p", "w", "lam"]);
            cfg.weights = [1, 1, 4, 3, 1, 2, 3, 1, 4, 1, 2, 5, 3];
            (hist_strategy(cfg), proptest::collection::vec(any::<u16>(), 0..40), proptest::collection::vec(any::<bool>(), 0..16))
                .prop_map(|(hist, perm, flips)| OrderCase { hist, perm, flips })
                .boxed()
        };
        stages.push(Box::new(Stage {
            name: "order-core-wide",
            source: random(wide, tier.pick(3000, 60_000)),
            run,
            panic_is_violation: false,
            render: |c: &OrderCase| format!("{} perm={:?} flips={:?}", c.hist.render(), c.perm, c.flips),
            rule: "as order-core, over a 5-name alphabet with leaves of up to 5 slots (symmetries that are products of cycles; several slots redundant in one step; orbits cut in the middle)",
            case_timeout_s: tier.pick(30, 120),
            exhaustive: false,
        }));
    }
    {
        let max_ops = tier.pick(7, 10);
        stages.push(Box::new(Stage {
            name: "order-core-analysis",
            source: random(move || strategy(LangId::Core, max_ops), tier.pick(3000, 60_000)),
            run: run_analysis,
            panic_is_violation: false,
            render: |c: &OrderCase| format!("{} perm={:?} flips={:?}", c.hist.render(), c.perm, c.flips),
            rule: "as order-core, on e-graphs that carry an analysis (smallest term size), whose data change in unions",
            case_timeout_s: tier.pick(30, 120),
            exhaustive: false,
        }));
    }
    Property { id: "C12", scale: tier.pick(4, 2), stages, assumptions: vec![] }
}
