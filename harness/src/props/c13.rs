//! C13 — equalities are never lost and old handles stay valid.
use crate::engine::*;
use crate::langs::*;
use crate::mixed::*;
use slotted_egraphs::*;
use std::collections::BTreeSet;

fn run(c: &Mixed, obs: &mut Obs) -> Result<(), String> {
    crate::with_lang!(c.lang, L => run_l::<L>(c, obs))
}

fn run_l<L: Language + 'static>(c: &Mixed, obs: &mut Obs) -> Result<(), String> {
    run_ln::<L, ()>(c, obs, ())
}

fn run_modify(c: &Mixed, obs: &mut Obs) -> Result<(), String> {
    run_ln::<Core, crate::analyses::WrapElim>(c, obs, crate::analyses::WrapElim)
}

fn run_ln<L: Language + 'static, N: Analysis<L> + 'static>(c: &Mixed, obs: &mut Obs, n: N) -> Result<(), String> {
    let mut eg: EGraph<L, N> = new_egraph(n, c.extraction_subst);
    // recorded: (i, j, step) handles observed equal at step
    let mut equal_pairs: Vec<(usize, usize, usize)> = Vec::new();
    let mut prev_slots: Vec<BTreeSet<Slot>> = Vec::new();
    let mut prev = eg.progress();
    let mut cmp = 0u64;
    let mut old_pair_rechecked = false;
    let mut dead_used = false;
    // one case in three leaves the old handles alone until the end (every query compresses union-find paths; a handle whose
    // class was merged away several times without anybody looking must still canonicalise to a live class, once and for all)
    let lazy = {
        let mut h: u64 = 0xcbf29ce484222325;
        for b in c.render().as_bytes() {
            h ^= *b as u64;
            h = h.wrapping_mul(0x100000001b3);
        }
        h % 3 == 1
    };
    let n_ops = c.ops.len();
    let mut lazy_end = false;
    let st = drive::<L, N>(c, &mut eg, &mut |eg, st, _op| {
        let step = st.step;
        if lazy {
            if step + 1 < n_ops {
                return Ok(());
            }
            lazy_end = true;
            for (k, h) in st.handles.iter().enumerate() {
                let f = eg.find_applied_id(h);
                let ff = eg.find_applied_id(&f);
                cmp += 1;
                if f != ff || !eg.is_alive(f.id) {
                    return Err(format!("old handle t{} = {:?} (not used since it was returned) canonicalises to {:?}, and that to {:?}; alive: {}", k, h, f, ff, eg.is_alive(f.id)));
                }
            }
        }
        // 1. recorded equalities persist
        for (i, j, s0) in &equal_pairs {
            cmp += 1;
            if !eg.eq(&st.handles[*i], &st.handles[*j]) {
                return Err(format!("t{} and t{} compared equal after step {} but are unequal after step {}", i, j, s0, step));
            }
            if step >= s0 + 5 {
                old_pair_rechecked = true;
            }
        }
        // 2. every handle ever returned stays usable; slot sets only shrink
        for (k, h) in st.handles.iter().enumerate() {
            let f = eg.find_applied_id(h);
            let sl: BTreeSet<Slot> = f.slots().iter().copied().collect();
            if !eg.is_alive(h.id) {
                dead_used = true;
            }
            if k < prev_slots.len() {
                cmp += 1;
                if !sl.is_subset(&prev_slots[k]) {
                    return Err(format!("slots of t{} grew: {:?} -> {:?} at step {}", k, prev_slots[k], sl, step));
                }
                prev_slots[k] = sl;
            } else {
                prev_slots.push(sl);
            }
            if !eg.eq(h, &f) {
                return Err(format!("t{} = {:?} is not equal to its own canonical form {:?}", k, h, f));
            }
        }
        // 3. record new equal pairs
        let n = st.handles.len();
        for i in 0..n {
            for j in i + 1..n {
                if eg.eq(&st.handles[i], &st.handles[j]) && !equal_pairs.iter().any(|(a, b, _)| *a == i && *b == j) {
                    equal_pairs.push((i, j, step));
                }
            }
        }
        // 4. extraction from old handles (also dead ones), every third step and at the end
        if step % 3 == 2 || step + 1 == c.ops.len() {
            let ex = Extractor::<L, AstSize>::new(eg, AstSize);
            for (k, h) in st.handles.iter().enumerate() {
                let t = ex.extract(h, eg);
                cmp += 1;
                match lookup_rec_expr(&t, eg) {
                    Some(a) => {
                        if !eg.eq(&a, h) {
                            return Err(format!("term {} extracted from the old handle t{} = {:?} is not equal to it", t, k, h));
                        }
                    }
                    None => return Err(format!("term {} extracted from t{} is not represented", t, k)),
                }
            }
        }
        // 5. progress moves only in the documented direction
        let pr = eg.progress();
        cmp += 1;
        let ok = if pr.number_of_classes != prev.number_of_classes {
            pr.number_of_classes > prev.number_of_classes
        } else if pr.number_of_live_classes != prev.number_of_live_classes {
            pr.number_of_live_classes < prev.number_of_live_classes
        } else if pr.sum_of_slots != prev.sum_of_slots {
            pr.sum_of_slots < prev.sum_of_slots
        } else {
            pr.sum_of_symmetries >= prev.sum_of_symmetries
        };
        if !ok {
            return Err(format!(
                "progress moved the wrong way at step {}: classes {}->{} live {}->{} slots {}->{} symmetries {}->{}",
                step, prev.number_of_classes, pr.number_of_classes, prev.number_of_live_classes, pr.number_of_live_classes, prev.sum_of_slots, pr.sum_of_slots, prev.sum_of_symmetries, pr.sum_of_symmetries
            ));
        }
        prev = pr;
        Ok(())
    })?;
    obs.cmp(cmp);
    if dead_used {
        obs.label("dead-handle");
    }
    if old_pair_rechecked {
        obs.label("pair-rechecked-5-ops-later");
    }
    if lazy_end {
        obs.label("handles-untouched-until-the-end");
    }
    if st.rewrites_changed > 0 {
        obs.label("rewrite-changed");
    }
    obs.nontrivial = dead_used && (old_pair_rechecked || lazy_end);
    Ok(())
}

pub fn property(tier: Tier) -> Property {
    let mut stages: Vec<Box<dyn DynStage>> = Vec::new();
    for (name, lang, q, t) in [
        ("long-core", LangId::Core, 3000u32, 60_000u32),
        ("long-lambda", LangId::Lambda, 1000, 20_000),
        ("long-arith", LangId::Arith, 600, 12_000),
        ("long-sdql", LangId::Sdql, 600, 12_000),
        ("long-fgh", LangId::Fgh, 600, 12_000),
    ] {
        let mut cfg = MixedCfg::for_lang(lang);
        cfg.hist.namings = crate::tm::Naming::diverse();
        cfg.max_ops = tier.pick(20, 30);
        stages.push(Box::new(Stage {
            name,
            source: random(move || mixed_strategy(cfg.clone()), tier.pick(q, t)),
            run,
            panic_is_violation: true,
            render: |c: &Mixed| c.render(),
            rule: "long mixed histories (up to 20/30 generator chunks = 20-60 operations: insertions, unions, rewrite iterations); after every operation: all pairs ever observed equal still equal, every handle ever returned can be canonicalised / compared / extracted from, slot sets only shrink, progress moves lexicographically as documented; non-trivial = a dead handle is used and a pair recorded >= 5 operations earlier is re-checked; distinct by rendered history",
            case_timeout_s: tier.pick(30, 120),
            exhaustive: false,
        }));
    }
    {
        // classes with up to 5 slots: several slots can become redundant in one step, symmetries that are products of cycles
        let mut cfg = MixedCfg::for_lang(LangId::Core);
        cfg.max_ops = tier.pick(10, 16);
        cfg.hist.namings = crate::tm::Naming::diverse();
        cfg.hist.gen.alphabet = 5;
        cfg.hist.gen.max_fv = 4;
        cfg.hist.gen.max_depth = 2;
        cfg.rewrite_p = 1;
        cfg.no_subst_rules = true;
        cfg.allow_extraction_subst = false;
        cfg.hist.gen.ops = Some(vec!["v", "f2", "g3", "g4", "h4", "c0", "p", "w", "lam"]);
        cfg.hist.weights = [1, 1, 4, 3, 1, 2, 3, 1, 4, 1, 2, 5, 3];
        stages.push(Box::new(Stage {
            name: "long-core-wide",
            source: random(move || mixed_strategy(cfg.clone()), tier.pick(2000, 40_000)),
            run,
            panic_is_violation: true,
            render: |c: &Mixed| c.render(),
            rule: "as long-core, over a 5-name alphabet with leaves of up to 4 slots, mostly permuted copies, renamed copies and unions of a symmetric leaf with a smaller leaf over a subset of its names (several slots redundant in one step)",
            case_timeout_s: tier.pick(30, 120),
            exhaustive: false,
        }));
    }
    {
        // an analysis whose modify hook unions: w(w(x)) = x (the class an insertion is creating is merged away during that insertion)
        let mut cfg = MixedCfg::for_lang(LangId::Core);
        cfg.max_ops = tier.pick(12, 20);
        cfg.hist.namings = crate::tm::Naming::diverse();
        cfg.hist.gen.ops = Some(vec!["v", "f2", "g3", "c0", "c0", "w", "w", "w", "p", "p", "lam"]);
        stages.push(Box::new(Stage {
            name: "long-core-modify-hook",
            source: random(move || mixed_strategy(cfg.clone()), tier.pick(2500, 50_000)),
            run: run_modify,
            panic_is_violation: true,
            render: |c: &Mixed| c.render(),
            rule: "as long-core, on e-graphs with an analysis whose modify hook asserts w(w(x)) = x and (p x c0) = c0 by unions of its own: the class an insertion creates is merged into an older class with slots during that very insertion, so the invocation the insertion returns is an old handle from the start",
            case_timeout_s: tier.pick(30, 120),
            exhaustive: false,
        }));
    }
    Property { id: "C13", scale: tier.pick(5, 2), stages, assumptions: vec!["a panic while using an old handle is a violation of this property".into()] }
}
