//! C19 — slot maps behave as finite maps independent of construction order.
use crate::engine::*;
use proptest::prelude::*;
use serde::{Deserialize, Serialize};
use slotted_egraphs::*;
use std::collections::hash_map::DefaultHasher;
use std::collections::{BTreeMap, BTreeSet};
use std::hash::{Hash, Hasher};
use std::sync::Arc;

type Ref = BTreeMap<Slot, Slot>;

fn slots4() -> Vec<Slot> {
    vec![Slot::numeric(3), Slot::named("x"), Slot::numeric(0), Slot::named("b")]
}

fn slots16() -> Vec<Slot> {
    let mut v = Vec::new();
    for i in 0..6 {
        v.push(Slot::numeric(i * 3));
    }
    for n in ["q", "a", "zz", "m", "f7", "f2"] {
        v.push(Slot::named(n));
    }
    for _ in 0..4 {
        v.push(Slot::fresh());
    }
    // beyond 16 entries as well
    for i in 0..8 {
        v.push(Slot::numeric(100 + i * 7));
    }
    // the user spells exactly the fresh slot that would be handed out next (fill-ins of compose_fresh must avoid it)
    if let Some(k) = v[15].to_string().strip_prefix("$f").and_then(|k| k.parse::<u32>().ok()) {
        v.push(Slot::named(&format!("f{}", k + 1)));
    }
    v
}

fn hash_of(m: &SlotMap) -> u64 {
    let mut h = DefaultHasher::new();
    m.hash(&mut h);
    h.finish()
}

fn build(r: &Ref, rev: bool) -> SlotMap {
    let mut m = SlotMap::new();
    if rev {
        for (k, v) in r.iter().rev() {
            m.insert(*k, *v);
        }
    } else {
        for (k, v) in r.iter() {
            m.insert(*k, *v);
        }
    }
    m
}

/// all observers of `m` agree with the reference `r`
fn agree(m: &SlotMap, r: &Ref, universe: &[Slot]) -> Result<(), String> {
    if m.len() != r.len() {
        return Err(format!("len {} vs {}", m.len(), r.len()));
    }
    if m.is_empty() != r.is_empty() {
        return Err("is_empty".into());
    }
    for k in universe {
        if m.get(*k) != r.get(k).copied() {
            return Err(format!("get({:?}) = {:?}, reference {:?}", k, m.get(*k), r.get(k)));
        }
        if m.contains_key(*k) != r.contains_key(k) {
            return Err(format!("contains_key({:?})", k));
        }
        if let Some(v) = r.get(k) {
            if m[*k] != *v {
                return Err(format!("index({:?})", k));
            }
        }
    }
    let it: Vec<(Slot, Slot)> = m.iter().collect();
    let rit: Vec<(Slot, Slot)> = r.iter().map(|(a, b)| (*a, *b)).collect();
    if it != rit {
        return Err(format!("iter() {:?} vs reference (sorted by key) {:?}", it, rit));
    }
    let it2: Vec<(Slot, Slot)> = m.clone().into_iter().collect();
    if it2 != rit {
        return Err("into_iter".into());
    }
    let keys: BTreeSet<Slot> = m.keys().iter().copied().collect();
    if keys != r.keys().copied().collect() {
        return Err("keys()".into());
    }
    let vals: BTreeSet<Slot> = m.values().iter().copied().collect();
    if vals != r.values().copied().collect() {
        return Err("values()".into());
    }
    if m.keys_vec() != r.keys().copied().collect::<Vec<_>>() {
        return Err("keys_vec()".into());
    }
    if m.values_vec() != r.values().copied().collect::<Vec<_>>() {
        return Err("values_vec()".into());
    }
    if m.values_immut().copied().collect::<Vec<_>>() != r.values().copied().collect::<Vec<_>>() {
        return Err("values_immut()".into());
    }
    let bij = r.values().collect::<BTreeSet<_>>().len() == r.len();
    if m.is_bijection() != bij {
        return Err("is_bijection".into());
    }
    let perm = bij && r.keys().collect::<BTreeSet<_>>() == r.values().collect::<BTreeSet<_>>();
    if m.is_perm() != perm {
        return Err("is_perm".into());
    }
    // representation independence
    for rev in [false, true] {
        let c = build(r, rev);
        if &c != m {
            return Err(format!("map built by inserting the same pairs in {} order is not == ({:?} vs {:?})", if rev { "reverse" } else { "key" }, c, m));
        }
        if hash_of(&c) != hash_of(m) {
            return Err("hash differs for equal pair sets".into());
        }
        if c.cmp(m) != std::cmp::Ordering::Equal || c.partial_cmp(m) != Some(std::cmp::Ordering::Equal) {
            return Err("cmp != Equal for equal pair sets".into());
        }
    }
    let fi: SlotMap = r.iter().map(|(a, b)| (*a, *b)).collect();
    if &fi != m {
        return Err("from_iter".into());
    }
    let fp = SlotMap::from_pairs(&rit);
    if &fp != m {
        return Err("from_pairs".into());
    }
    Ok(())
}

fn unary_laws(m: &SlotMap, r: &Ref, universe: &[Slot]) -> Result<(), String> {
    let bij = r.values().collect::<BTreeSet<_>>().len() == r.len();
    if bij {
        let inv = m.inverse();
        let rinv: Ref = r.iter().map(|(a, b)| (*b, *a)).collect();
        agree(&inv, &rinv, universe).map_err(|e| format!("inverse: {e}"))?;
        if &inv.inverse() != m {
            return Err("inverse(inverse(m)) != m".into());
        }
        let id = m.compose(&inv);
        let rid: Ref = r.keys().map(|k| (*k, *k)).collect();
        agree(&id, &rid, universe).map_err(|e| format!("m.compose(m^-1): {e}"))?;
        if id != SlotMap::identity(&m.keys()) {
            return Err("m.compose(m^-1) != identity(keys)".into());
        }
    }
    let idk = SlotMap::identity(&m.keys());
    let rid: Ref = r.keys().map(|k| (*k, *k)).collect();
    agree(&idk, &rid, universe).map_err(|e| format!("identity: {e}"))?;
    // compose_fresh with the empty map: keeps keys, all values pairwise distinct fresh slots
    let marker = Slot::fresh();
    if universe.contains(&marker) {
        return Err(format!("the source of fill-in slots (Slot::fresh) returned {:?}, a slot the maps already mention: a fill-in taken from it is not fresh", marker));
    }
    let cf = m.compose_fresh(&SlotMap::new());
    if cf.keys() != m.keys() {
        return Err("compose_fresh changes keys".into());
    }
    let vs = cf.values_vec();
    if vs.iter().collect::<BTreeSet<_>>().len() != vs.len() {
        return Err("compose_fresh: fill-in slots not pairwise distinct".into());
    }
    for v in &vs {
        if universe.contains(v) || *v == marker {
            return Err(format!("compose_fresh: fill-in slot {:?} is not fresh", v));
        }
    }
    // bijection_from_fresh_to
    let b = SlotMap::bijection_from_fresh_to(&m.keys());
    if b.values() != m.keys() || !b.is_bijection() || b.len() != m.len() {
        return Err("bijection_from_fresh_to".into());
    }
    for k in b.keys().iter() {
        if universe.contains(k) || vs.contains(k) {
            return Err("bijection_from_fresh_to: key not fresh".into());
        }
    }
    Ok(())
}

fn binary_laws(a: &SlotMap, ra: &Ref, b: &SlotMap, rb: &Ref, universe: &[Slot]) -> Result<(), String> {
    // Eq / Ord consistency
    let eq = ra == rb;
    if (a == b) != eq {
        return Err(format!("== is {} but pair sets are {}", a == b, if eq { "equal" } else { "different" }));
    }
    let c = a.cmp(b);
    if (c == std::cmp::Ordering::Equal) != eq {
        return Err("cmp Equal inconsistent with ==".into());
    }
    if b.cmp(a) != c.reverse() {
        return Err("cmp not antisymmetric".into());
    }
    if eq && hash_of(a) != hash_of(b) {
        return Err("equal maps hash differently".into());
    }
    // compose_partial
    let cp = a.compose_partial(b);
    let rcp: Ref = ra.iter().filter_map(|(x, y)| rb.get(y).map(|z| (*x, *z))).collect();
    agree(&cp, &rcp, universe).map_err(|e| format!("compose_partial: {e}"))?;
    // compose (precondition: values(a) == keys(b))
    if ra.values().collect::<BTreeSet<_>>() == rb.keys().collect::<BTreeSet<_>>() {
        let cc = a.compose(b);
        agree(&cc, &rcp, universe).map_err(|e| format!("compose: {e}"))?;
    }
    // compose_fresh
    let cf = a.compose_fresh(b);
    if cf.keys() != a.keys() {
        return Err("compose_fresh changes keys".into());
    }
    let mut fill = BTreeSet::new();
    for (x, y) in ra.iter() {
        match rb.get(y) {
            Some(z) => {
                if cf.get(*x) != Some(*z) {
                    return Err("compose_fresh disagrees where defined".into());
                }
            }
            None => {
                let f = cf.get(*x).unwrap();
                if universe.contains(&f) || !fill.insert(f) {
                    return Err("compose_fresh fill-in not fresh / not distinct".into());
                }
            }
        }
    }
    // try_union / union
    let compatible = ra.iter().all(|(k, v)| rb.get(k).map(|w| w == v).unwrap_or(true));
    let tu = a.try_union(b);
    if tu.is_some() != compatible {
        return Err(format!("try_union is_some = {} but maps are {}", tu.is_some(), if compatible { "compatible" } else { "conflicting" }));
    }
    if compatible {
        let mut ru = ra.clone();
        for (k, v) in rb.iter() {
            ru.insert(*k, *v);
        }
        agree(&tu.unwrap(), &ru, universe).map_err(|e| format!("try_union: {e}"))?;
        agree(&a.union(b), &ru, universe).map_err(|e| format!("union: {e}"))?;
    }
    Ok(())
}

// ---- exhaustive stage 1: operation sequences of length <= 5 over 4 keys x 4 values ----

#[derive(Clone, Debug, Serialize, Deserialize, PartialEq, Eq)]
pub enum SOp {
    Ins(u8, u8),
    Rem(u8),
}

#[derive(Clone, Debug, Serialize, Deserialize)]
pub struct SeqPrefix {
    pub prefix: Vec<SOp>,
    pub depth: usize,
}

fn all_ops() -> Vec<SOp> {
    let mut v = Vec::new();
    for k in 0..4 {
        for x in 0..4 {
            v.push(SOp::Ins(k, x));
        }
    }
    for k in 0..4 {
        v.push(SOp::Rem(k));
    }
    v
}

fn apply(op: &SOp, m: &mut SlotMap, r: &mut Ref, s: &[Slot]) {
    match op {
        SOp::Ins(k, v) => {
            m.insert(s[*k as usize], s[*v as usize]);
            r.insert(s[*k as usize], s[*v as usize]);
        }
        SOp::Rem(k) => {
            m.remove(s[*k as usize]);
            r.remove(&s[*k as usize]);
        }
    }
}

fn run_seq(c: &SeqPrefix, obs: &mut Obs) -> Result<(), String> {
    let s = slots4();
    let mut m = SlotMap::new();
    let mut r = Ref::new();
    let mut trail = Vec::new();
    for op in &c.prefix {
        apply(op, &mut m, &mut r, &s);
        trail.push(op.clone());
        agree(&m, &r, &s).map_err(|e| format!("after {:?}: {e}", trail))?;
    }
    let ops = all_ops();
    let mut states = 0u64;
    fn dfs(m: &SlotMap, r: &Ref, depth: usize, ops: &[SOp], s: &[Slot], trail: &mut Vec<SOp>, states: &mut u64) -> Result<(), String> {
        if depth == 0 {
            return Ok(());
        }
        for op in ops {
            let mut m2 = m.clone();
            let mut r2 = r.clone();
            apply(op, &mut m2, &mut r2, s);
            trail.push(op.clone());
            *states += 1;
            agree(&m2, &r2, s).map_err(|e| format!("after {:?}: {e}", trail))?;
            dfs(&m2, &r2, depth - 1, ops, s, trail, states)?;
            trail.pop();
        }
        Ok(())
    }
    dfs(&m, &r, c.depth, &ops, &s, &mut trail, &mut states)?;
    obs.cmp(states);
    obs.count("states", states);
    obs.nontrivial = true;
    Ok(())
}

// ---- exhaustive stage 2: all maps over 4 slots, unary laws and all pairs ----

#[derive(Clone, Debug, Serialize, Deserialize)]
pub struct MapIdx {
    pub a: u16,
}

fn map_of(idx: u16, s: &[Slot]) -> (SlotMap, Ref) {
    let mut r = Ref::new();
    let mut x = idx;
    for k in 0..4 {
        let d = x % 5;
        x /= 5;
        if d > 0 {
            r.insert(s[k], s[(d - 1) as usize]);
        }
    }
    // build in a construction order that depends on the index (so that both orders are exercised)
    (build(&r, idx % 2 == 1), r)
}

fn run_pairs(c: &MapIdx, obs: &mut Obs) -> Result<(), String> {
    let s = slots4();
    let (a, ra) = map_of(c.a, &s);
    agree(&a, &ra, &s).map_err(|e| format!("map #{}: {e}", c.a))?;
    unary_laws(&a, &ra, &s).map_err(|e| format!("map {:?}: {e}", a))?;
    for bi in 0..625u16 {
        let (b, rb) = map_of(bi, &s);
        binary_laws(&a, &ra, &b, &rb, &s).map_err(|e| format!("a={:?} b={:?}: {e}", a, b))?;
        obs.cmp(1);
        // associativity of composition on a sample of third maps
        for ci in [(c.a as u32 * 7 + bi as u32 * 13) % 625, (c.a as u32 + bi as u32 * 31 + 5) % 625] {
            let (cm, _) = map_of(ci as u16, &s);
            if a.compose_partial(&b).compose_partial(&cm) != a.compose_partial(&b.compose_partial(&cm)) {
                return Err(format!("compose not associative: {:?} {:?} {:?}", a, b, cm));
            }
            // transitivity of the order
            use std::cmp::Ordering::*;
            if a.cmp(&b) != Greater && b.cmp(&cm) != Greater && a.cmp(&cm) == Greater {
                return Err(format!("order not transitive: {:?} {:?} {:?}", a, b, cm));
            }
        }
    }
    obs.nontrivial = true;
    Ok(())
}

// ---- random long sequences over 16 slots ----

#[derive(Clone, Debug, Serialize, Deserialize)]
pub struct LongSeq {
    pub ops: Vec<(u8, u8, u8)>,
}

pub fn run_long_case(c: &LongSeq, obs: &mut Obs) -> Result<(), String> {
    run_long(c, obs)
}

fn run_long(c: &LongSeq, obs: &mut Obs) -> Result<(), String> {
    let s = slots16();
    let mut m = SlotMap::new();
    let mut r = Ref::new();
    let mut m2 = SlotMap::new();
    let mut r2 = Ref::new();
    let mut maxlen = 0;
    for (i, (kind, k, v)) in c.ops.iter().enumerate() {
        let (k, v) = (s[*k as usize % s.len()], s[*v as usize % s.len()]);
        match kind % 8 {
            0..=3 => {
                m.insert(k, v);
                r.insert(k, v);
            }
            4 => {
                m.remove(k);
                r.remove(&k);
            }
            5 => {
                m2.insert(k, v);
                r2.insert(k, v);
            }
            6 => {
                std::mem::swap(&mut m, &mut m2);
                std::mem::swap(&mut r, &mut r2);
            }
            _ => {
                // values_mut: overwrite all values by a rotation of the slot list
                let mut rr = Ref::new();
                for (x, y) in r.iter() {
                    let p = s.iter().position(|z| z == y).unwrap();
                    rr.insert(*x, s[(p + 1) % s.len()]);
                }
                for y in m.values_mut() {
                    let p = s.iter().position(|z| z == y).unwrap();
                    *y = s[(p + 1) % s.len()];
                }
                r = rr;
            }
        }
        maxlen = maxlen.max(r.len());
        agree(&m, &r, &s).map_err(|e| format!("after op {i}: {e}"))?;
        obs.cmp(1);
    }
    unary_laws(&m, &r, &s)?;
    binary_laws(&m, &r, &m2, &r2, &s)?;
    binary_laws(&m2, &r2, &m, &r, &s)?;
    // a bijection on 11 to 25 slots (random sequences rarely build large bijections), keys inserted in a case-dependent order
    {
        let bytes: Vec<usize> = c.ops.iter().flat_map(|(a, b, c)| [*a as usize, *b as usize, *c as usize]).collect();
        let byte = |i: usize| if bytes.is_empty() { i * 7 + 3 } else { bytes[i % bytes.len()] + i };
        let len = (11 + byte(0) % 15).min(s.len());
        let mut keys: Vec<usize> = (0..s.len()).collect();
        for i in (1..keys.len()).rev() {
            keys.swap(i, byte(i) % (i + 1));
        }
        keys.truncate(len);
        let mut vals = keys.clone();
        for i in (1..vals.len()).rev() {
            vals.swap(i, byte(100 + i) % (i + 1));
        }
        let mut m3 = SlotMap::new();
        let mut r3 = Ref::new();
        for (k, v) in keys.iter().zip(vals.iter()) {
            m3.insert(s[*k], s[*v]);
            r3.insert(s[*k], s[*v]);
        }
        agree(&m3, &r3, &s).map_err(|e| format!("bijection on {len} slots: {e}"))?;
        unary_laws(&m3, &r3, &s).map_err(|e| format!("bijection on {len} slots: {e}"))?;
        binary_laws(&m3, &r3, &m, &r, &s).map_err(|e| format!("bijection on {len} slots composed with the sequence's map: {e}"))?;
        binary_laws(&m, &r, &m3, &r3, &s).map_err(|e| format!("the sequence's map composed with a bijection on {len} slots: {e}"))?;
        if len > 20 {
            obs.label("bijection-on-more-than-20-slots");
        }
    }
    if maxlen > 10 {
        obs.label("beyond-inline-capacity");
    }
    if maxlen > 17 {
        obs.label("more-than-17-entries");
    }
    obs.nontrivial = maxlen > 10;
    Ok(())
}

pub fn property(tier: Tier) -> Property {
    let mut stages: Vec<Box<dyn DynStage>> = Vec::new();
    let pre_len = 2usize;
    let depth = 3usize;
    stages.push(Box::new(Stage {
        name: "exhaustive-sequences",
        source: Source::Enumerate(Arc::new(move || {
            // every prefix of length exactly pre_len, each followed by a DFS of `depth` more operations:
            // covers every sequence of length <= pre_len + depth = 5
            let ops = all_ops();
            let mut v: Vec<SeqPrefix> = Vec::new();
            for a in &ops {
                for b in &ops {
                    v.push(SeqPrefix { prefix: vec![a.clone(), b.clone()], depth });
                }
            }
            let _ = pre_len;
            Box::new(v.into_iter())
        })),
        run: run_seq,
        panic_is_violation: true,
        render: |c: &SeqPrefix| format!("prefix {:?} then every continuation of up to {} more insert/remove operations over 4 keys x 4 values", c.prefix, c.depth),
        rule: "exhaustive: every insert/remove sequence of length <= 5 over 4 keys x 4 values (400 prefixes x DFS depth 3 = 3.37M states), all observers compared with a BTreeMap after every step; every enumerated prefix counts as non-trivial",
        case_timeout_s: 60,
        exhaustive: true,
    }));
    stages.push(Box::new(Stage {
        name: "exhaustive-pairs",
        source: Source::Enumerate(Arc::new(|| Box::new((0..625u16).map(|a| MapIdx { a })))),
        run: run_pairs,
        panic_is_violation: true,
        render: |c: &MapIdx| format!("map #{} of the 625 partial maps over 4 slots, against all 625 maps", c.a),
        rule: "exhaustive: all 625 maps over 4 slots (unary laws) and all 390625 ordered pairs (Eq/Ord/Hash consistency, compose, compose_partial, compose_fresh, union, try_union), associativity and order transitivity on two derived third maps per pair",
        case_timeout_s: 60,
        exhaustive: true,
    }));
    stages.push(Box::new(Stage {
        name: "random-long",
        source: random(
            || proptest::collection::vec((any::<u8>(), any::<u8>(), any::<u8>()), 0..120).prop_map(|ops| LongSeq { ops }).boxed(),
            tier.pick(20_000, 400_000),
        ),
        run: run_long,
        panic_is_violation: true,
        render: |c: &LongSeq| format!("{:?}", c.ops),
        rule: "random sequences of up to 80 insert/remove/values_mut/swap operations on two maps over 25 slots (numeric, named, f<n>-named, fresh, and the name of the very next fresh slot); at the end a bijection on 11-25 slots (keys inserted in a case-dependent order) goes through the unary laws (inverse, inverse twice, composition with the inverse) and is composed with the sequence's map both ways; non-trivial = a map grew beyond the inline capacity of 10; distinct by sequence",
        case_timeout_s: 60,
        exhaustive: false,
    }));
    Property {
        id: "C19", scale: tier.pick(2, 1),
        stages,
        assumptions: vec![
            "operations with a checks-mode precondition (inverse on bijections, compose with matching key/value sets, union on compatible maps, duplicate-free from_iter) are only called inside the precondition".into(),
        ],
    }
}
