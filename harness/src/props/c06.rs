//! C06 — extraction returns a cheapest term of the requested class.
use crate::engine::*;
use crate::langs::*;
use crate::mixed::*;
use crate::oracle::bf::*;
use slotted_egraphs::*;
use std::collections::BTreeSet;

fn check_cf<L: Language + 'static, CF: CostFunction<L, Cost = u64>>(
    eg: &EGraph<L>,
    cf: CF,
    cf2: CF,
    handles: &[AppliedId],
    name: &str,
    obs: &mut Obs,
) -> Result<(), String> {
    let reference = reference_costs(eg, &cf);
    let marker = Slot::fresh();
    let ex = Extractor::<L, CF>::new(eg, cf2);
    // queries: identity invocation of every live class, every handle, and a renamed invocation of every handle
    let mut queries: Vec<AppliedId> = eg.ids().iter().map(|i| eg.mk_identity_applied_id(*i)).collect();
    queries.extend(handles.iter().cloned());
    for h in handles {
        let slots: Vec<Slot> = h.slots().iter().copied().collect();
        if slots.is_empty() {
            continue;
        }
        // rotate the argument names, and rename one of them to a brand-new name
        let mut m = SlotMap::new();
        for (i, s) in slots.iter().enumerate() {
            m.insert(*s, slots[(i + 1) % slots.len()]);
        }
        queries.push(h.apply_slotmap(&m));
        let mut m2 = SlotMap::identity(&h.slots());
        m2.insert(slots[0], Slot::named("brandnew"));
        queries.push(h.apply_slotmap(&m2));
    }
    for q in &queries {
        let f = eg.find_applied_id(q);
        let Some(rc) = reference.get(&f.id) else {
            return Err(format!("[{name}] reference finds no finite term in class {:?}", f.id));
        };
        let t = ex.extract(q, eg);
        let best = ex.get_best_cost::<()>(&f);
        let recomputed = cf.cost_rec(&t);
        obs.cmp(4);
        if best != *rc {
            return Err(format!("[{name}] reported best cost {} of {:?} differs from the reference minimum {}", best, f, rc));
        }
        if recomputed != best {
            return Err(format!("[{name}] extracted term {} of {:?} costs {}, reported best cost is {}", t, q, recomputed, best));
        }
        match lookup_rec_expr(&t, eg) {
            None => return Err(format!("[{name}] extracted term {} of {:?} is not represented", t, q)),
            Some(j) => {
                if !eg.eq(&j, q) {
                    return Err(format!("[{name}] extracted term {} looks up to {:?}, which is not equal to the query {:?}", t, j, q));
                }
            }
        }
        // slot hygiene: free slots are arguments of the query or brand-new slots
        let qs: BTreeSet<Slot> = q.slots().iter().copied().collect();
        for s in free_slots(&t) {
            if !qs.contains(&s) && !(is_fresh_kind(s) && s > marker) {
                return Err(format!("[{name}] extracted term {} of {:?} has the free slot {:?}, neither an argument of the query nor a new slot", t, q, s));
            }
        }
    }
    // the convenience entry points (a new extractor per call): same cost, same membership, for the first two handles
    if name == "AstSize" {
        for h in handles.iter().take(2) {
            let t = ast_size_extract(h, eg);
            let f = eg.find_applied_id(h);
            obs.cmp(2);
            if AstSize.cost_rec(&t) != reference_costs(eg, &AstSize)[&f.id] {
                return Err(format!("ast_size_extract({:?}) = {} costs {}, the reference minimum is {}", h, t, AstSize.cost_rec(&t), reference_costs(eg, &AstSize)[&f.id]));
            }
            match lookup_rec_expr(&t, eg) {
                Some(j) if eg.eq(&j, h) => {}
                other => return Err(format!("ast_size_extract({:?}) = {} looks up to {:?}", h, t, other)),
            }
        }
    }
    // classification
    for i in eg.ids() {
        let ns = eg.enodes(i);
        let costs: BTreeSet<u64> = ns
            .iter()
            .filter(|n| n.applied_id_occurrences().iter().all(|c| reference.contains_key(&c.id)))
            .map(|n| cf.cost(n, |id| reference[&id]))
            .collect();
        if costs.len() >= 2 {
            obs.label("class-with-nodes-of-different-cost");
            obs.nontrivial = true;
        }
        if ns.iter().any(|n| n.applied_id_occurrences().iter().any(|c| c.id == i)) {
            obs.label("cyclic-class");
            obs.nontrivial = true;
        }
        let cs = eg.slots(i);
        if ns.iter().any(|n| n.slots().len() > cs.len()) {
            obs.label("node-with-redundant-slot");
        }
    }
    Ok(())
}

fn is_fresh_kind(s: Slot) -> bool {
    s.to_string().starts_with("$f")
}

pub fn free_slots<L: Language>(t: &RecExpr<L>) -> BTreeSet<Slot> {
    // free slots of a term: public slots of the node plus the children's free slots minus what the node binds for that child
    let mut out: BTreeSet<Slot> = BTreeSet::new();
    let mut n = t.node.clone();
    // give each child a distinct marker invocation carrying its free slots, then ask the node for its public slots
    let kids: Vec<BTreeSet<Slot>> = t.children.iter().map(|c| free_slots(c)).collect();
    for (i, r) in n.applied_id_occurrences_mut().into_iter().enumerate() {
        let m: SlotMap = kids[i].iter().map(|s| (*s, *s)).collect();
        *r = AppliedId::new(Id(i), m);
    }
    out.extend(n.slots().iter().copied());
    out
}

fn run(c: &Mixed, obs: &mut Obs) -> Result<(), String> {
    crate::with_lang!(c.lang, L => run_l::<L>(c, obs))
}

fn run_l<L: Language + 'static>(c: &Mixed, obs: &mut Obs) -> Result<(), String> {
    let mut eg: EGraph<L> = new_egraph((), c.extraction_subst);
    let n_ops = c.ops.len();
    let mut err: Option<String> = None;
    let mut obs2 = Obs::default();
    let st = drive::<L, ()>(c, &mut eg, &mut |eg, st, op| {
        // check after every union / rewrite and at the end
        if matches!(op, MOp::Union(..) | MOp::Rewrite(_)) || st.step + 1 == n_ops {
            let r = check_cf(eg, AstSize, AstSize, &st.handles, "AstSize", &mut obs2)
                .and_then(|_| check_cf(eg, PosWeighted, PosWeighted, &st.handles, "position-weighted size", &mut obs2))
                .and_then(|_| check_cf(eg, OpWeighted, OpWeighted, &st.handles, "operator-weighted size", &mut obs2));
            if let Err(e) = r {
                err = Some(format!("after step {}: {}", st.step, e));
                return Err(err.clone().unwrap());
            }
        }
        Ok(())
    });
    obs.comparisons += obs2.comparisons;
    obs.labels.extend(obs2.labels.iter().copied());
    obs.nontrivial = obs2.nontrivial;
    let st = st?;
    if st.rewrites_changed > 0 {
        obs.label("after-rewriting");
    }
    Ok(())
}

/// classes whose smallest terms are astronomically large (sharing: x(k+1) = (p xk xk), built node by node with EGraph::add) next to
/// small ones: building the extractor and extracting from the small classes must still work, with the right costs
fn run_chain(n: &u32, obs: &mut Obs) -> Result<(), String> {
    let mut eg: EGraph<Core> = EGraph::default();
    let mut xs: Vec<AppliedId> = vec![eg.add_expr(RecExpr::parse("(v $0)").map_err(|e| format!("{e:?}"))?)];
    for _ in 0..*n {
        let x = xs.last().unwrap().clone();
        xs.push(eg.add(Core::P(x.clone(), x)));
    }
    let ex = Extractor::<Core, AstSize>::new(&eg, AstSize);
    for (k, x) in xs.iter().enumerate() {
        let best = ex.get_best_cost::<()>(x);
        let expected: u64 = if k + 1 >= 64 { u64::MAX } else { (1u64 << (k + 1)) - 1 };
        obs.cmp(1);
        if best != expected {
            return Err(format!("level {k} of a doubling chain of {n} levels: reported best cost {best}, the smallest term has {} nodes", if k + 1 >= 64 { "more than 2^64 - 1 (saturated)".to_string() } else { expected.to_string() }));
        }
        if k <= 10 {
            let t = ex.extract(x, &eg);
            let size = t.to_string().matches(|c| c == '(').count() as u64;
            if size != expected {
                return Err(format!("level {k}: extracted a term with {size} nodes, reported cost {best}"));
            }
            match lookup_rec_expr(&t, &eg) {
                Some(b) if eg.eq(&b, x) => {}
                other => return Err(format!("level {k}: the extracted term looks up to {:?}, queried {:?}", other, x)),
            }
        }
    }
    obs.nontrivial = *n >= 63;
    if *n >= 63 {
        obs.label("costs-beyond-u64");
    }
    Ok(())
}

pub fn property(tier: Tier) -> Property {
    let mut stages: Vec<Box<dyn DynStage>> = Vec::new();
    stages.push(Box::new(Stage {
        name: "doubling-chain",
        source: Source::Enumerate(std::sync::Arc::new(|| Box::new(vec![3u32, 12, 31, 32, 61, 62, 63, 64, 65, 80, 130].into_iter()))),
        run: run_chain,
        panic_is_violation: true,
        render: |n: &u32| format!("x0 = (v $0), x(k+1) = (p xk xk) for {} levels, built with EGraph::add", n),
        rule: "fixed family: doubling chains of 3 to 130 levels (the smallest term of level k has 2^(k+1) - 1 nodes; from level 63 on more than u64 can count): Extractor::new must succeed, reported best costs are exact below the range and saturated above, the terms of levels 0-10 are extracted, have the reported size and look up to the queried class; non-trivial = the chain goes beyond the u64 range",
        case_timeout_s: 60,
        exhaustive: false,
    }));
    for (name, lang, q, t) in [
        ("extract-core", LangId::Core, 4000u32, 80_000u32),
        ("extract-lambda", LangId::Lambda, 1200, 24_000),
        ("extract-arith", LangId::Arith, 800, 16_000),
        ("extract-sdql", LangId::Sdql, 800, 16_000),
        ("extract-fp", LangId::Fp, 800, 16_000),
    ] {
        let mut cfg = MixedCfg::for_lang(lang);
        cfg.hist.namings = crate::tm::Naming::diverse();
        cfg.max_ops = tier.pick(8, 12);
        stages.push(Box::new(Stage {
            name,
            source: random(move || mixed_strategy(cfg.clone()), tier.pick(q, t)),
            run,
            panic_is_violation: true,
            render: |c: &Mixed| c.render(),
            rule: "e-graphs reached by insertions, unions (symmetric, redundant, self-referential recipes) and rewrite iterations; after every union/rewrite: every live class, every returned handle and two renamed invocations of it are extracted under AstSize, a position-weighted size and an operator-weighted size; membership, recomputed = reported = Bellman-Ford minimum, slot hygiene; non-trivial = a class with e-nodes of different cost or a cyclic class; distinct by rendered history",
            case_timeout_s: tier.pick(30, 120),
            exhaustive: false,
        }));
    }
    Property { id: "C06", scale: tier.pick(5, 2), stages, assumptions: vec!["cost functions are strictly monotone; the Bellman-Ford reference iterates min over eg.enodes() only".into()] }
}
