//! C16 — node shapes are canonical modulo renaming; derived Language impls are coherent.
use super::c18::Build;
use crate::engine::*;
use crate::langs::*;
use crate::tm::*;
use proptest::prelude::*;
use serde::{Deserialize, Serialize};
use slotted_egraphs::*;
use std::collections::{BTreeMap, BTreeSet};
use std::sync::Arc;

/// A model e-node: a `Tm` of depth 2 whose children are pseudo-leaves `#<class>` carrying the
/// argument names of the child invocation (pairwise distinct).
#[derive(Clone, Debug, Serialize, Deserialize, PartialEq, Eq, Hash)]
pub struct NodeCase {
    pub lang: LangId,
    pub node: Tm,
    /// a second node to compare shapes with
    pub other: Tm,
    /// injective renaming of the alphabet applied to free names (indices = names)
    pub ren: Vec<Name>,
    pub naming: Naming,
}

fn langs() -> Vec<LangId> {
    vec![LangId::Core, LangId::Arith, LangId::Sdql, LangId::ArrayLang, LangId::Arith2, LangId::Pay, LangId::Wide]
}

fn child_leaf(id: usize, args: &[Name]) -> Tm {
    Tm { op: format!("#{}", id), args: args.iter().map(|a| Arg::S(*a)).collect() }
}

pub fn gen_node(sig: &LangSig, alphabet: usize, src: &mut Src) -> Tm {
    let o = &sig.ops[src.pick(sig.ops.len())];
    let mut args = Vec::new();
    for f in &o.fields {
        match f {
            Field::Slot => args.push(Arg::S(src.pick(alphabet) as Name)),
            Field::PayU32 => args.push(Arg::P(format!("{}", src.pick(5)))),
            // payload values the text syntax cannot carry (whitespace at the ends or inside) are still values of the node type:
            // to_syntax / from_syntax must round-trip them
            Field::PaySym => args.push(Arg::P(["s", "t", " a", "a ", "a b", "\ts", " 1", ""][if src.pick(5) == 0 { 2 + src.pick(5) } else { src.pick(2) }].to_string())),
            Field::PayOther(v) if v.contains(&"Z") && src.pick(5) == 0 => args.push(Arg::P([" ", "\t", "\u{a0}", "\n"][src.pick(4)].to_string())),
            Field::PayOther(v) => args.push(Arg::P(v[src.pick(v.len())].to_string())),
            Field::Kid(nb) => {
                let bs: Vec<Name> = (0..*nb).map(|_| src.pick(alphabet) as Name).collect();
                let k = src.pick(4.min(alphabet + 1));
                let mut pool: Vec<Name> = (0..alphabet as Name).collect();
                let mut a = Vec::new();
                for _ in 0..k {
                    if pool.is_empty() {
                        break;
                    }
                    a.push(pool.remove(src.pick(pool.len())));
                }
                let id = src.pick(3);
                args.push(Arg::K(bs, child_leaf(id, &a)));
            }
        }
    }
    Tm { op: o.name.to_string(), args }
}

/// Build the real node.
pub fn build_node<L: Build>(t: &Tm, nm: &Naming) -> Result<L, String> {
    let mut slots = Vec::new();
    let mut binders: Vec<Vec<Slot>> = Vec::new();
    let mut pays: Vec<&str> = Vec::new();
    let mut kids: Vec<AppliedId> = Vec::new();
    for a in &t.args {
        match a {
            Arg::S(n) => slots.push(crate::egx::slot_of(*n, nm)),
            Arg::P(p) => pays.push(p.as_str()),
            Arg::K(bs, k) => {
                binders.push(bs.iter().map(|b| crate::egx::slot_of(*b, nm)).collect());
                let id: usize = k.op[1..].parse().map_err(|_| "bad child leaf")?;
                let mut m = SlotMap::new();
                for (i, a) in k.args.iter().enumerate() {
                    let Arg::S(n) = a else { return Err("bad child arg".into()) };
                    // class parameter slots: numeric 100, 101, ... (keys), in key order
                    m.insert(Slot::numeric(100 + i as u32), crate::egx::slot_of(*n, nm));
                }
                kids.push(AppliedId::new(Id(id), m));
            }
        }
    }
    let mut node = L::build(&t.op, &slots, &binders, &pays).ok_or_else(|| format!("cannot build {}", t.op))?;
    let mut refs = node.applied_id_occurrences_mut();
    if refs.len() != kids.len() {
        return Err("child count".into());
    }
    for (r, k) in refs.iter_mut().zip(kids.into_iter()) {
        **r = k;
    }
    Ok(node)
}

/// Reference canonicaliser: scoped environment, first-occurrence numbering of free names, a new
/// number for every binder position.  Two nodes are equal up to injective renaming of free names
/// and alpha-renaming iff their canonical forms are equal.
pub fn ref_canon(t: &Tm) -> (String, Vec<Name>) {
    let mut free: Vec<(Name, u32)> = Vec::new();
    let mut next = 0u32;
    let mut out = format!("{}|", t.op);
    let mut free_order: Vec<Name> = Vec::new();
    let mut see_free = |n: Name, free: &mut Vec<(Name, u32)>, next: &mut u32| -> u32 {
        if let Some((_, k)) = free.iter().find(|(m, _)| *m == n) {
            return *k;
        }
        let k = *next;
        *next += 1;
        free.push((n, k));
        free_order.push(n);
        k
    };
    for a in &t.args {
        match a {
            Arg::S(n) => {
                let k = see_free(*n, &mut free, &mut next);
                out.push_str(&format!("s{} ", k));
            }
            Arg::P(p) => out.push_str(&format!("p{} ", p)),
            Arg::K(bs, k) => {
                let mut scope: Vec<(Name, u32)> = Vec::new();
                for b in bs {
                    scope.push((*b, next));
                    out.push_str(&format!("b{} ", next));
                    next += 1;
                }
                out.push_str(&format!("{}[", k.op));
                for a in &k.args {
                    let Arg::S(n) = a else { continue };
                    let num = match scope.iter().rev().find(|(m, _)| m == n) {
                        Some((_, k)) => *k,
                        None => see_free(*n, &mut free, &mut next),
                    };
                    out.push_str(&format!("{} ", num));
                }
                out.push_str("] ");
            }
        }
    }
    (out, free_order)
}

fn model_free(t: &Tm) -> BTreeSet<Name> {
    let mut out = BTreeSet::new();
    for a in &t.args {
        match a {
            Arg::S(n) => {
                out.insert(*n);
            }
            Arg::P(_) => {}
            Arg::K(bs, k) => {
                for a in &k.args {
                    if let Arg::S(n) = a {
                        if !bs.contains(n) {
                            out.insert(*n);
                        }
                    }
                }
            }
        }
    }
    out
}

fn has_shadowing(t: &Tm) -> bool {
    let fv = model_free(t);
    t.args.iter().any(|a| matches!(a, Arg::K(bs, _) if bs.iter().any(|b| fv.contains(b)) || (bs.len() == 2 && bs[0] == bs[1])))
}

fn rename_node(t: &Tm, ren: &[Name], alpha_shift: Name) -> Tm {
    // free names through ren; bound names of each child scope shifted to names >= 50 (alpha-renaming)
    let mut args = Vec::new();
    for (pos, a) in t.args.iter().enumerate() {
        match a {
            Arg::S(n) => args.push(Arg::S(ren[*n as usize])),
            Arg::P(p) => args.push(Arg::P(p.clone())),
            Arg::K(bs, k) => {
                let nbs: Vec<Name> = bs.iter().enumerate().map(|(i, _)| 50 + alpha_shift + (pos as Name) * 2 + i as Name).collect();
                let kargs = k
                    .args
                    .iter()
                    .map(|a| match a {
                        Arg::S(n) => match bs.iter().rposition(|b| b == n) {
                            Some(i) => Arg::S(nbs[i]),
                            None => Arg::S(ren[*n as usize]),
                        },
                        o => o.clone(),
                    })
                    .collect();
                args.push(Arg::K(nbs, Tm { op: k.op.clone(), args: kargs }));
            }
        }
    }
    Tm { op: t.op.clone(), args }
}

pub fn run_case(c: &NodeCase, obs: &mut Obs) -> Result<(), String> {
    run(c, obs)
}

pub fn decode_case(ch: &[u16], a: u16, b: u16) -> NodeCase {
    decode(ch, a, b)
}

fn run(c: &NodeCase, obs: &mut Obs) -> Result<(), String> {
    match c.lang {
        LangId::Core => run_l::<Core>(c, obs),
        LangId::Arith => run_l::<Arith>(c, obs),
        LangId::Sdql => run_l::<Sdql>(c, obs),
        LangId::ArrayLang => run_l::<ArrayLang>(c, obs),
        LangId::Arith2 => run_l::<Arith2>(c, obs),
        LangId::Pay => run_l::<Pay>(c, obs),
        LangId::Wide => run_l::<Wide>(c, obs),
        _ => Err("language without direct constructors".into()),
    }
}

fn laws<L: Build>(t: &Tm, nm: &Naming) -> Result<(L, L, SlotMap), String> {
    let n: L = build_node::<L>(t, nm)?;
    let show = format!("{:?}", n);
    // ---- occurrences ----
    let mut c = n.clone();
    let all: Vec<*mut Slot> = c.all_slot_occurrences_mut().into_iter().map(|x| x as *mut Slot).collect();
    let public: Vec<*mut Slot> = c.public_slot_occurrences_mut().into_iter().map(|x| x as *mut Slot).collect();
    let private: Vec<*mut Slot> = c.private_slot_occurrences_mut().into_iter().map(|x| x as *mut Slot).collect();
    let alls: BTreeSet<usize> = all.iter().map(|p| *p as usize).collect();
    let pubs: BTreeSet<usize> = public.iter().map(|p| *p as usize).collect();
    let prvs: BTreeSet<usize> = private.iter().map(|p| *p as usize).collect();
    if alls.len() != all.len() || pubs.len() != public.len() || prvs.len() != private.len() {
        return Err(format!("{show}: an occurrence is listed twice"));
    }
    if !pubs.is_disjoint(&prvs) || pubs.union(&prvs).copied().collect::<BTreeSet<_>>() != alls {
        return Err(format!(
            "{show}: public ({}) and private ({}) occurrences do not partition all ({}) occurrences",
            public.len(),
            private.len(),
            all.len()
        ));
    }
    if n.all_slot_occurrences().len() != all.len() || n.public_slot_occurrences().len() != public.len() || n.private_slot_occurrences().len() != private.len() {
        return Err(format!("{show}: mutable and immutable occurrence lists differ in length"));
    }
    // expected numbers from the model
    let n_all: usize = t.args.iter().map(|a| match a { Arg::S(_) => 1, Arg::P(_) => 0, Arg::K(bs, k) => bs.len() + k.args.len() }).sum();
    let n_pub: usize = t.args.iter().map(|a| match a { Arg::S(_) => 1, Arg::P(_) => 0, Arg::K(bs, k) => k.args.iter().filter(|a| matches!(a, Arg::S(x) if !bs.contains(x))).count() }).sum();
    if all.len() != n_all || public.len() != n_pub {
        return Err(format!("{show}: {} occurrences ({} public), model says {} ({} public)", all.len(), public.len(), n_all, n_pub));
    }
    let fv: BTreeSet<Slot> = model_free(t).into_iter().map(|x| crate::egx::slot_of(x, nm)).collect();
    let slots: BTreeSet<Slot> = n.slots().iter().copied().collect();
    if slots != fv {
        return Err(format!("{show}: slots() = {:?}, model free names {:?}", slots, fv));
    }
    let pubset: BTreeSet<Slot> = n.public_slot_occurrences().into_iter().collect();
    if pubset != slots {
        return Err(format!("{show}: slots() differs from the set of public occurrences"));
    }
    // ---- syntax round trip ----
    match L::from_syntax(&n.to_syntax()) {
        Some(b) if b == n => {}
        other => return Err(format!("{show}: from_syntax(to_syntax(n)) = {:?}", other)),
    }
    // ---- shape ----
    let (sh, bij) = n.weak_shape();
    let (sh2, bij2) = sh.weak_shape();
    if sh2 != sh {
        return Err(format!("{show}: shape {:?} is not its own shape ({:?})", sh, sh2));
    }
    if bij2.iter().any(|(a, b)| a != b) {
        return Err(format!("{show}: the shape's own bijection is not the identity"));
    }
    let bvals: BTreeSet<Slot> = bij.values().iter().copied().collect();
    if bvals != slots || !bij.is_bijection() {
        return Err(format!("{show}: bijection {:?} does not map onto the node's slots {:?}", bij, slots));
    }
    let bkeys: BTreeSet<Slot> = bij.keys().iter().copied().collect();
    let shslots: BTreeSet<Slot> = sh.slots().iter().copied().collect();
    if bkeys != shslots {
        return Err(format!("{show}: bijection keys {:?} are not the shape's slots {:?}", bkeys, shslots));
    }
    // capture-avoiding application, the way the e-graph itself applies a shape's bijection (bound names are irrelevant)
    let back = sh.refresh_private().apply_slotmap(&bij);
    if back.public_slot_occurrences() != n.public_slot_occurrences() {
        return Err(format!("{show}: shape.apply(bij) = {:?} has other public occurrences", back));
    }
    if back.weak_shape().0 != sh {
        return Err(format!("{show}: shape.apply(bij) = {:?} has another shape", back));
    }
    Ok((n, sh, bij))
}

fn run_l<L: Build>(c: &NodeCase, obs: &mut Obs) -> Result<(), String> {
    let nm = &c.naming;
    let (_n, sh, _bij) = laws::<L>(&c.node, nm)?;
    let (_o, sho, _) = laws::<L>(&c.other, nm)?;
    obs.cmp(12);
    // renamed copy: same shape
    let r1 = rename_node(&c.node, &c.ren, 0);
    let (_n1, sh1, _) = laws::<L>(&r1, nm)?;
    if sh1 != sh {
        return Err(format!("renaming changes the shape: {} -> {:?}, {} -> {:?}", c.node.txt(), sh, r1.txt(), sh1));
    }
    if ref_canon(&r1).0 != ref_canon(&c.node).0 {
        return Err("harness: reference canonical form not invariant under renaming".into());
    }
    // shapes equal <=> same up to renaming
    let same_ref = ref_canon(&c.node).0 == ref_canon(&c.other).0;
    if (sh == sho) != same_ref {
        return Err(format!(
            "{} and {} are {} up to renaming but their shapes are {} ({:?} vs {:?})",
            c.node.txt(),
            c.other.txt(),
            if same_ref { "equal" } else { "different" },
            if sh == sho { "equal" } else { "different" },
            sh,
            sho
        ));
    }
    let has_binder = c.node.args.iter().any(|a| matches!(a, Arg::K(bs, _) if !bs.is_empty()));
    let repeated = {
        let mut names = Vec::new();
        for a in &c.node.args {
            match a {
                Arg::S(n) => names.push(*n),
                Arg::K(_, k) => names.extend(k.args.iter().filter_map(|a| if let Arg::S(n) = a { Some(*n) } else { None })),
                _ => {}
            }
        }
        names.iter().collect::<BTreeSet<_>>().len() != names.len()
    };
    if has_shadowing(&c.node) {
        obs.label("same-node-shadowing");
    }
    if same_ref {
        obs.label("other-equal-up-to-renaming");
    }
    obs.nontrivial = (has_binder && !model_free(&c.node).is_empty()) || repeated;
    Ok(())
}

fn decode(ch: &[u16], a: u16, b: u16) -> NodeCase {
    let ls = langs();
    let lang = ls[(a as usize * ls.len()) >> 16];
    let sig = lang.sig();
    let alphabet = 4;
    let mut src = Src::new(ch);
    let node = gen_node(&sig, alphabet, &mut src);
    // other: half of the time a renamed / perturbed copy, otherwise independent
    let mut pool: Vec<Name> = (0..alphabet as Name).collect();
    let mut ren = Vec::new();
    for _ in 0..alphabet {
        ren.push(pool.remove(src.pick(pool.len())));
    }
    let other = match src.pick(4) {
        0 => rename_node(&node, &ren, 10),
        1 => {
            // perturb one name of a renamed copy
            let mut o = rename_node(&node, &ren, 10);
            let k = src.pick(8);
            let mut i = 0;
            for a in o.args.iter_mut() {
                match a {
                    Arg::S(n) => {
                        if i == k {
                            *n = (*n + 1) % alphabet as Name;
                        }
                        i += 1;
                    }
                    Arg::K(_, kid) => {
                        // keep child args distinct: swap two args instead of changing one
                        if i == k && kid.args.len() >= 2 {
                            kid.args.swap(0, 1);
                        }
                        i += 1;
                    }
                    _ => {}
                }
            }
            o
        }
        _ => gen_node(&sig, alphabet, &mut src),
    };
    let namings = [Naming::Alpha, Naming::Numeric, Naming::FreshLike, Naming::NumericRev, first_occurrence_numeric(&node), first_occurrence_mixed(&node, false), first_occurrence_mixed(&node, true)];
    let naming = namings[(b as usize * namings.len()) >> 16].clone();
    NodeCase { lang, node, other, ren, naming }
}

/// spelling under which the node's names, in order of first occurrence (binders and bound uses included), are $0, $1, $2, ..:
/// the node then looks exactly like a canonical shape although scopes may reuse a number
pub fn first_occurrence_numeric(node: &Tm) -> Naming {
    let mut order: Vec<Name> = Vec::new();
    let mut see = |n: Name, order: &mut Vec<Name>| {
        if !order.contains(&n) {
            order.push(n);
        }
    };
    for a in &node.args {
        match a {
            Arg::S(n) => see(*n, &mut order),
            Arg::P(_) => {}
            Arg::K(bs, k) => {
                for b in bs {
                    see(*b, &mut order);
                }
                for x in &k.args {
                    if let Arg::S(n) = x {
                        see(*n, &mut order);
                    }
                }
            }
        }
    }
    let mut table: Vec<String> = vec![String::new(); 256];
    let mut next = 0usize;
    for n in &order {
        table[*n as usize] = next.to_string();
        next += 1;
    }
    for e in table.iter_mut() {
        if e.is_empty() {
            *e = next.to_string();
            next += 1;
        }
    }
    Naming::Table(table)
}

/// like first_occurrence_numeric, but the last one or two names (in order of first occurrence) are spelled as fresh-kind slots
/// ($f0, $f1) or as the first names the thread interns ($a, $b): a node whose numeric names look canonical, mixed with slots of
/// the two other kinds (the three kinds are interleaved in the derived order of `Slot`)
pub fn first_occurrence_mixed(node: &Tm, named: bool) -> Naming {
    let Naming::Table(mut table) = first_occurrence_numeric(node) else { unreachable!() };
    // how many distinct names the node has = the largest number handed out to a name that occurs
    let mut occurring: Vec<Name> = Vec::new();
    for a in &node.args {
        match a {
            Arg::S(n) => occurring.push(*n),
            Arg::P(_) => {}
            Arg::K(bs, k) => {
                occurring.extend(bs.iter().copied());
                occurring.extend(k.args.iter().filter_map(|x| if let Arg::S(n) = x { Some(*n) } else { None }));
            }
        }
    }
    occurring.sort();
    occurring.dedup();
    let k = occurring.len();
    for n in occurring {
        let num: usize = table[n as usize].parse().unwrap_or(0);
        // the last name, and for nodes with >= 3 names also the one before it
        if k >= 1 && (num + 1 == k || (k >= 3 && num + 2 == k)) {
            let j = k - 1 - num; // 0 for the last, 1 for the one before
            table[n as usize] = if named { ["a", "b"][j].to_string() } else { format!("f{}", j) };
        }
    }
    Naming::Table(table)
}

fn exhaustive_cases() -> Vec<NodeCase> {
    // every operator of Core / Sdql / ArrayLang with every slot assignment over 3 names, children with 0..2 arguments
    let mut out = Vec::new();
    for lang in [LangId::Core, LangId::Sdql, LangId::ArrayLang, LangId::Pay] {
        let sig = lang.sig();
        for o in &sig.ops {
            // positions: slots, binders, child args (each child: 2 args, distinct)
            let mut variants: Vec<Vec<Arg>> = vec![vec![]];
            for f in &o.fields {
                let mut next: Vec<Vec<Arg>> = Vec::new();
                for v in &variants {
                    match f {
                        Field::Slot => {
                            for n in 0..3u8 {
                                let mut w = v.clone();
                                w.push(Arg::S(n));
                                next.push(w);
                            }
                        }
                        Field::PayU32 => {
                            let mut w = v.clone();
                            w.push(Arg::P("1".into()));
                            next.push(w);
                        }
                        Field::PaySym => {
                            let mut w = v.clone();
                            w.push(Arg::P("s".into()));
                            next.push(w);
                        }
                        Field::PayOther(vals) => {
                            for x in vals.iter().take(2) {
                                let mut w = v.clone();
                                w.push(Arg::P(x.to_string()));
                                next.push(w);
                            }
                        }
                        Field::Kid(nb) => {
                            let mut bss: Vec<Vec<Name>> = vec![vec![]];
                            for _ in 0..*nb {
                                let mut nb2 = Vec::new();
                                for b in &bss {
                                    for n in 0..3u8 {
                                        let mut c = b.clone();
                                        c.push(n);
                                        nb2.push(c);
                                    }
                                }
                                bss = nb2;
                            }
                            let mut argss: Vec<Vec<Name>> = vec![vec![]];
                            for x in 0..3u8 {
                                argss.push(vec![x]);
                                for y in 0..3u8 {
                                    if x != y {
                                        argss.push(vec![x, y]);
                                    }
                                }
                            }
                            for bs in &bss {
                                for a in &argss {
                                    let mut w = v.clone();
                                    w.push(Arg::K(bs.clone(), child_leaf(0, a)));
                                    next.push(w);
                                }
                            }
                        }
                    }
                }
                variants = next;
            }
            for (i, v) in variants.iter().enumerate() {
                let node = Tm { op: o.name.to_string(), args: v.clone() };
                // compare each node with its successor in the enumeration (decides shape equality on neighbouring assignments)
                let other = Tm { op: o.name.to_string(), args: variants[(i + 1) % variants.len()].clone() };
                let fo = first_occurrence_numeric(&node);
                out.push(NodeCase { lang, node: node.clone(), other: other.clone(), ren: vec![1, 2, 0, 3], naming: Naming::Alpha });
                out.push(NodeCase { lang, node, other, ren: vec![1, 2, 0, 3], naming: fo });
            }
        }
    }
    out
}

pub fn property(tier: Tier) -> Property {
    let stages: Vec<Box<dyn DynStage>> = vec![
        Box::new(Stage {
            name: "exhaustive-small",
            source: Source::Enumerate(Arc::new(|| Box::new(exhaustive_cases().into_iter()))),
            run,
            panic_is_violation: true,
            render: |c: &NodeCase| format!("[{:?}{}] {} ~ {}", c.lang, if matches!(c.naming, Naming::Table(_)) { ", names numbered $0,$1,.. by first occurrence" } else { "" }, c.node.txt(), c.other.txt()),
            rule: "exhaustive: every operator of Core, Sdql, ArrayLang and Pay (bool / i64 / char payloads, a payload next to a slot and a bound child) with every assignment of 3 names to its slot fields and binders and children with 0-2 distinct arguments (repeated and shadowing names included), each compared with the next assignment; non-trivial = binder next to a free slot, or a repeated name",
            case_timeout_s: 60,
            exhaustive: true,
        }),
        Box::new(Stage {
            name: "random-nodes",
            source: random(
                || (proptest::collection::vec(any::<u16>(), 0..60), any::<u16>(), any::<u16>()).prop_map(|(ch, a, b)| decode(&ch, a, b)).boxed(),
                tier.pick(60_000, 1_000_000),
            ),
            run,
            panic_is_violation: true,
            render: |c: &NodeCase| format!("[{:?},{}] {} ~ {} ren={:?}", c.lang, match &c.naming { Naming::Table(_) => "names numbered $0,$1,.. by first occurrence".to_string(), n => format!("{:?}", n) }, c.node.txt(), c.other.txt(), c.ren),
            rule: "random model e-nodes of 6 derived languages (plain slots, Bind, nested Bind, Bind before/after a free child, payloads), 4-name alphabet with repeated and shadowing names, child invocations with up to 3 arguments, 4 slot spellings; laws checked on the node, on a renamed + alpha-renamed copy and on a second node (renamed / perturbed / independent); non-trivial = binder next to a free slot, or a repeated name; distinct by rendered case",
            case_timeout_s: 60,
            exhaustive: false,
        }),
    ];
    Property {
        id: "C16", scale: tier.pick(1, 1),
        stages,
        assumptions: vec!["child invocations are bijective maps (pairwise distinct arguments); Bind<Bind<_>> binding one name twice is included (inner binder shadows)".into()],
    }
}

#[allow(dead_code)]
fn _unused(_: BTreeMap<u8, u8>) {}
