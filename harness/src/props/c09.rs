//! C09 — insertion is canonical: known terms create nothing, lookup agrees with add.
use crate::egx::*;
use crate::engine::*;
use crate::fp::*;
use crate::hist::*;
use crate::langs::*;
use crate::mixed::*;
use crate::oracle::ground::Ground;
use crate::tm::*;
use proptest::prelude::*;
use serde::{Deserialize, Serialize};
use slotted_egraphs::*;
use std::collections::{BTreeMap, BTreeSet};

#[derive(Clone, Debug, PartialEq, Eq, Hash, Serialize, Deserialize)]
pub enum Probe {
    /// re-insert the i-th added term literally
    Literal(u16),
    /// alpha-variant (all bound names changed)
    Alpha(u16),
    /// free names renamed by a rotation of the alphabet by k
    Renamed(u16, u8),
    /// the i-th term with an occurrence of the left operand of the u-th union replaced by the right operand
    Replaced(u16, u16),
    /// a subterm of the i-th term
    Sub(u16, u16),
    /// an arbitrary term (present or absent)
    Fresh(Tm),
    /// re-insert the term with exactly this index
    Term(usize),
}

#[derive(Clone, Debug, PartialEq, Eq, Hash, Serialize, Deserialize)]
pub struct ProbeCase {
    pub base: Mixed,
    pub probes: Vec<Probe>,
    /// rotation used for the renaming-equivariance check
    pub rot: u8,
}

fn idx(i: u16, n: usize) -> usize {
    (i as usize * n) >> 16
}

pub fn replace_first(t: &Tm, from: &Tm, to: &Tm) -> Option<Tm> {
    if t == from {
        return Some(to.clone());
    }
    let mut args = t.args.clone();
    for a in args.iter_mut() {
        if let Arg::K(bs, k) = a {
            // only under no binders that capture names of `to`/`from`
            if bs.iter().any(|b| from.fv().contains(b) || to.fv().contains(b)) {
                continue;
            }
            if let Some(r) = replace_first(k, from, to) {
                *k = r;
                return Some(Tm { op: t.op.clone(), args });
            }
        }
    }
    None
}

fn probe_term(c: &ProbeCase, p: &Probe, alphabet: u8) -> Option<(Tm, bool /*must be represented*/, &'static str)> {
    let terms = c.base.terms();
    if terms.is_empty() {
        if let Probe::Fresh(t) = p {
            return Some((t.clone(), false, "fresh"));
        }
        return None;
    }
    match p {
        Probe::Literal(i) => Some((terms[idx(*i, terms.len())].clone(), true, "literal")),
        Probe::Alpha(i) => {
            let t = &terms[idx(*i, terms.len())];
            let mut next: Name = 70;
            Some((t.freshen_bound(&mut next), true, "alpha-variant"))
        }
        Probe::Renamed(i, k) => {
            let t = &terms[idx(*i, terms.len())];
            let k = 1 + (*k % (alphabet - 1));
            // renaming all alphabet names (free and bound alike) by a rotation is injective: no capture
            Some((t.rename_all(&|n| if n < alphabet { (n + k) % alphabet } else { n }), true, "renamed"))
        }
        Probe::Replaced(i, u) => {
            let unions: Vec<(usize, usize)> = c.base.ops.iter().filter_map(|o| if let MOp::Union(a, b) = o { Some((*a, *b)) } else { None }).collect();
            if unions.is_empty() {
                return None;
            }
            let (a, b) = unions[idx(*u, unions.len())];
            if a >= terms.len() || b >= terms.len() {
                return None;
            }
            let t = &terms[idx(*i, terms.len())];
            // only when the union happens after all three terms exist is the variant guaranteed to be represented at the end
            let r = replace_first(t, &terms[a], &terms[b]).or_else(|| replace_first(t, &terms[b], &terms[a]))?;
            if &r == t {
                return None;
            }
            Some((r, true, "subterm-replaced-by-equal"))
        }
        Probe::Sub(i, j) => {
            let t = &terms[idx(*i, terms.len())];
            let subs = t.subterms();
            Some((subs[idx(*j, subs.len())].clone(), true, "subterm"))
        }
        Probe::Fresh(t) => Some((t.clone(), false, "fresh")),
        Probe::Term(i) => terms.get(*i).map(|t| (t.clone(), true, "literal")),
    }
}

fn run(c: &ProbeCase, obs: &mut Obs) -> Result<(), String> {
    crate::with_lang!(c.base.lang, L => run_l::<L, ()>(c, obs))
}

fn run_with_analysis(c: &ProbeCase, obs: &mut Obs) -> Result<(), String> {
    crate::with_lang!(c.base.lang, L => run_l::<L, crate::analyses::MinSize>(c, obs))
}

fn run_l<L: Language + 'static, N: Analysis<L> + Default + 'static>(c: &ProbeCase, obs: &mut Obs) -> Result<(), String> {
    let nm = &c.base.naming;
    let alphabet = 4u8;
    let mut eg: EGraph<L, N> = new_egraph(N::default(), c.base.extraction_subst);
    let st = drive::<L, N>(&c.base, &mut eg, &mut |_, _, _| Ok(()))?;
    let mut tracked = st.handles.clone();
    let has_sym_or_red = {
        let pr = eg.progress();
        pr.sum_of_symmetries > pr.number_of_live_classes || st.handles.iter().zip(st.terms.iter()).any(|(h, t)| eg.find_applied_id(h).slots().len() < t.fv().len())
    };
    // node-level insertion with the handles returned earlier as children (by now possibly stale: merged away, with arguments
    // for slots that became redundant): EGraph::add / EGraph::lookup must agree with inserting the corresponding term
    {
        let sig = c.base.lang.sig();
        let ops: Vec<&OpSig> = sig.ops.iter().filter(|o| !o.name.is_empty() && !o.fields.is_empty() && o.fields.len() <= 3 && o.fields.iter().all(|f| matches!(f, Field::Kid(0)))).collect();
        let n = st.handles.len();
        let mut done = 0;
        if !ops.is_empty() && n > 0 {
            for start in 0..n.min(3) {
                let o = ops[(start + c.rot as usize) % ops.len()];
                let k = o.fields.len();
                let idx: Vec<usize> = (0..k).map(|j| (start * 2 + j * (1 + c.rot as usize)) % n).collect();
                let mut elems = vec![SyntaxElem::String(o.name.to_string())];
                for i in &idx {
                    elems.push(SyntaxElem::AppliedId(st.handles[*i].clone()));
                }
                let Some(node) = L::from_syntax(&elems) else { continue };
                let term = Tm { op: o.name.to_string(), args: idx.iter().map(|i| Arg::K(vec![], st.terms[*i].clone())).collect() };
                if Ground::max_fv(&[term.clone()]) > 6 {
                    continue;
                }
                let fp0 = fingerprint(&eg, &tracked);
                let r = eg.lookup(&node);
                let fp1 = fingerprint(&eg, &tracked);
                if fp0 != fp1 {
                    return Err(format!("EGraph::lookup of the node {:?} changed the e-graph", node));
                }
                let a = eg.add(node.clone());
                let fp2 = fingerprint(&eg, &tracked);
                let created = fp2.classes != fp1.classes || fp2.nodes != fp1.nodes;
                obs.cmp(4);
                if r.is_some() == created {
                    return Err(format!("EGraph::lookup({:?}) (children = handles returned earlier) returned {:?} but EGraph::add of it {}", node, r, if created { "created something" } else { "created nothing" }));
                }
                if let Some(r) = &r {
                    if !eg.eq(r, &a) {
                        return Err(format!("EGraph::lookup({:?}) gives {:?}, EGraph::add gives {:?}: not equal", node, r, a));
                    }
                }
                // the node denotes the term built from the children's terms
                let b = eg.add_expr(parse_tm::<L>(&term, nm));
                let fp3 = fingerprint(&eg, &tracked);
                if fp3.classes != fp2.classes || fp3.nodes != fp2.nodes {
                    return Err(format!("after EGraph::add({:?}), inserting the same thing as a term {} created something", node, term.render(nm)));
                }
                if !eg.eq(&a, &b) {
                    return Err(format!("EGraph::add({:?}) = {:?} but the term {} is {:?}: not equal", node, a, term.render(nm), b));
                }
                tracked.push(a);
                done += 1;
            }
        }
        if done > 0 {
            obs.label("node-level-add-with-old-handles");
        }
    }
    for p in &c.probes {
        let Some((t, must, kind)) = probe_term(c, p, alphabet) else { continue };
        let re = parse_tm::<L>(&t, nm);
        // lookup never modifies the e-graph
        let fp0 = fingerprint(&eg, &tracked);
        let r = lookup_rec_expr(&re, &eg);
        let fp1 = fingerprint(&eg, &tracked);
        if fp0 != fp1 {
            return Err(format!("lookup of {} changed the e-graph: {:?} -> {:?}", t.render(nm), fp0, fp1));
        }
        if must && r.is_none() {
            return Err(format!("{} ({kind} of an inserted term) is represented but lookup fails", t.render(nm)));
        }
        let a = eg.add_expr(re.clone());
        let fp2 = fingerprint(&eg, &tracked);
        let created = fp2.classes != fp1.classes || fp2.nodes != fp1.nodes;
        obs.cmp(4);
        if r.is_some() == created {
            return Err(format!(
                "lookup of {} ({kind}) returned {:?} but inserting it {} (classes {} -> {}, e-nodes {} -> {})",
                t.render(nm),
                r,
                if created { "created something" } else { "created nothing" },
                fp1.classes,
                fp2.classes,
                fp1.nodes,
                fp2.nodes
            ));
        }
        if let Some(r) = &r {
            if !eg.eq(r, &a) {
                return Err(format!("lookup of {} gives {:?}, add gives {:?}: not equal", t.render(nm), r, a));
            }
            if fp2 != fp1 {
                return Err(format!("inserting the represented term {} ({kind}) changed the e-graph: {:?} -> {:?}", t.render(nm), fp1, fp2));
            }
        }
        // the result omits every slot its class does not have (it has exactly the slots of its canonical form)
        {
            let f = eg.find_applied_id(&a);
            let s1: BTreeSet<Slot> = a.slots().iter().copied().collect();
            let s2: BTreeSet<Slot> = f.slots().iter().copied().collect();
            if s1 != s2 {
                return Err(format!("add({}) ({kind}) returned {:?}, whose slots differ from those of its canonical form {:?}", t.render(nm), a, f));
            }
        }
        // slots of the result are free names of the term
        let fv: BTreeSet<Slot> = t.fv().into_iter().map(|n| slot_of(n, nm)).collect();
        let asl: BTreeSet<Slot> = a.slots().iter().copied().collect();
        if !asl.is_subset(&fv) {
            return Err(format!("add({}) returned {:?} whose slots are not free names of the term", t.render(nm), a));
        }
        // renaming the free names renames the result in the same way
        let k = 1 + (c.rot % (alphabet - 1));
        let t2 = t.rename_all(&|n| if n < alphabet { (n + k) % alphabet } else { n });
        let a2 = eg.add_expr(parse_tm::<L>(&t2, nm));
        let pi: SlotMap = a.slots().iter().map(|s| {
            // s is slot_of(n) for some alphabet name n
            let n = (0..alphabet).find(|n| slot_of(*n, nm) == *s);
            match n {
                Some(n) => (*s, slot_of((n + k) % alphabet, nm)),
                None => (*s, *s),
            }
        }).collect();
        let expected = a.apply_slotmap(&pi);
        obs.cmp(1);
        if !eg.eq(&a2, &expected) {
            return Err(format!(
                "add({}) = {:?}; add of the renamed term {} = {:?}, expected something equal to {:?}",
                t.render(nm),
                a,
                t2.render(nm),
                a2,
                expected
            ));
        }
        tracked.push(a);
        obs.label(kind);
        if (kind != "literal" && kind != "fresh" && must) || (kind == "literal" && has_sym_or_red) {
            obs.nontrivial = true;
        }
    }
    if has_sym_or_red {
        obs.label("symmetry-or-redundancy-present");
    }
    Ok(())
}

// ---- insertion on e-graphs whose analysis asserts equations itself (modify hook) ----

fn run_modify(c: &ProbeCase, obs: &mut Obs) -> Result<(), String> {
    use crate::analyses::WrapElim;
    let nm = &c.base.naming;
    let mut eg: EGraph<Core, WrapElim> = new_egraph(WrapElim, false);
    let slot_set = |a: &AppliedId| -> BTreeSet<Slot> { a.slots().iter().copied().collect() };
    let mut merged_on_arrival = 0usize;
    let mut prev = (0usize, 0usize);
    let st = drive::<Core, WrapElim>(&c.base, &mut eg, &mut |eg, st, op| {
        let pr = eg.progress();
        let now = (pr.number_of_classes, pr.number_of_live_classes);
        if let MOp::Add(t) | MOp::AddSyn(t) = op {
            // classes were allocated by this insertion, but fewer stayed alive: some class was merged away during the insertion
            if now.0 > prev.0 && now.1 < prev.1 + (now.0 - prev.0) {
                merged_on_arrival += 1;
            }
            // the invocation an insertion returns already omits the slots its class does not have
            let a = st.handles.last().unwrap();
            let f = eg.find_applied_id(a);
            if slot_set(a) != slot_set(&f) {
                return Err(format!("inserting {} returned {:?}, whose slots differ from those of its canonical form {:?}", t.render(nm), a, f));
            }
            if !eg.eq(a, &f) {
                return Err(format!("inserting {} returned {:?}, which is not equal to its own canonical form {:?}", t.render(nm), a, f));
            }
        }
        prev = now;
        Ok(())
    })?;
    let tracked = st.handles.clone();
    for p in &c.probes {
        let Some((t, _must, kind)) = probe_term(c, p, 4) else { continue };
        let re = parse_tm::<Core>(&t, nm);
        let a = eg.add_expr(re.clone());
        let f = eg.find_applied_id(&a);
        obs.cmp(4);
        if slot_set(&a) != slot_set(&f) {
            return Err(format!("add({}) ({kind}) returned {:?}, whose slots differ from those of its canonical form {:?}", t.render(nm), a, f));
        }
        let fv: BTreeSet<Slot> = t.fv().into_iter().map(|n| slot_of(n, nm)).collect();
        if !slot_set(&a).is_subset(&fv) {
            return Err(format!("add({}) returned {:?} whose slots are not free names of the term", t.render(nm), a));
        }
        // now the term is represented: lookup finds it, a second insertion creates nothing and returns the same thing
        let fp1 = fingerprint(&eg, &tracked);
        let Some(r) = lookup_rec_expr(&re, &eg) else { return Err(format!("{} was just inserted but lookup fails", t.render(nm))) };
        if !eg.eq(&r, &a) || slot_set(&r) != slot_set(&a) {
            return Err(format!("add({}) returned {:?} but lookup returns {:?}", t.render(nm), a, r));
        }
        let a2 = eg.add_expr(re);
        let fp2 = fingerprint(&eg, &tracked);
        if fp1 != fp2 {
            return Err(format!("inserting {} a second time changed the e-graph: {:?} -> {:?}", t.render(nm), fp1, fp2));
        }
        if !eg.eq(&a2, &a) || slot_set(&a2) != slot_set(&a) {
            return Err(format!("add({}) returned {:?} the first time and {:?} the second time", t.render(nm), a, a2));
        }
        obs.label(kind);
    }
    if merged_on_arrival > 0 {
        obs.label("class-merged-away-during-its-own-insertion");
        obs.nontrivial = true;
    }
    Ok(())
}

fn strategy(lang: LangId, max_ops: usize) -> BoxedStrategy<ProbeCase> {
    let mut cfg = MixedCfg { max_ops, allow_extraction_subst: false, ..MixedCfg::for_lang(lang) };
    cfg.hist.namings = Naming::diverse();
    let sig = lang.sig();
    let gcfg = cfg.hist.gen.clone();
    let probe = crate::one_of![ 
        2 => any::<u16>().prop_map(Probe::Literal),
        3 => any::<u16>().prop_map(Probe::Alpha),
        3 => (any::<u16>(), any::<u8>()).prop_map(|(i, k)| Probe::Renamed(i, k)),
        4 => (any::<u16>(), any::<u16>()).prop_map(|(i, u)| Probe::Replaced(i, u)),
        2 => (any::<u16>(), any::<u16>()).prop_map(|(i, j)| Probe::Sub(i, j)),
        3 => proptest::collection::vec(any::<u16>(), 0..30).prop_map(move |ch| Probe::Fresh(cap_fv(&gen_tm(&sig, &gcfg, &mut Src::new(&ch), 0), 3))),
    ];
    (mixed_strategy(cfg), proptest::collection::vec(probe, 1..6), any::<u8>())
        .prop_map(|(base, probes, rot)| ProbeCase { base, probes, rot })
        .boxed()
}

fn render(c: &ProbeCase) -> String {
    format!("{} probes={:?} rot={}", c.base.render(), c.probes.iter().map(|p| match p {
        Probe::Fresh(t) => format!("Fresh({})", t.render(&c.base.naming)),
        o => format!("{:?}", o),
    }).collect::<Vec<_>>(), c.rot)
}

// ---- slots of probe results against the ground closure (histories without rewriting) ----

#[derive(Clone, Debug, PartialEq, Eq, Hash, Serialize, Deserialize)]
pub struct SlotCase {
    pub hist: Hist,
    pub probe: Tm,
}

fn run_slots(c: &SlotCase, obs: &mut Obs) -> Result<(), String> {
    crate::with_lang!(c.hist.lang, L => run_slots_l::<L>(c, obs))
}

fn run_slots_l<L: Language>(c: &SlotCase, obs: &mut Obs) -> Result<(), String> {
    let nm = &c.hist.naming;
    let mut all = c.hist.terms();
    all.push(c.probe.clone());
    let m = Ground::max_fv(&all);
    let mut g = Ground::new(&all, (2 * m + 1).max(3));
    if g.too_big {
        return Ok(());
    }
    let mut eg: EGraph<L> = EGraph::default();
    let mut ids = Vec::new();
    let mut added = Vec::new();
    for op in &c.hist.ops {
        match op {
            HOp::Add(t) => {
                ids.push(eg.add_expr(parse_tm::<L>(t, nm)));
                added.push(t.clone());
            }
            HOp::Union(i, j) => {
                eg.union(&ids[*i], &ids[*j]);
                g.assert_eq(&added[*i], &added[*j]);
            }
        }
    }
    let a = eg.add_expr(parse_tm::<L>(&c.probe, nm));
    let back: BTreeMap<Slot, Name> = slot_names(c.probe.fv(), nm);
    let kept: BTreeSet<Name> = a.slots().iter().filter_map(|s| back.get(s).copied()).collect();
    if kept.len() != a.slots().len() {
        return Err(format!("add({}) = {:?}: a slot is not a free name of the term", c.probe.render(nm), a));
    }
    let mut any_red = false;
    for x in c.probe.fv() {
        let Some(red) = g.redundant(&c.probe, x) else { continue };
        obs.cmp(1);
        any_red |= red;
        // complete direction only (the small pool is sound for it); the sound direction is C01's
        if red && kept.contains(&x) {
            return Err(format!("{} provably does not depend on {} but add returned {:?}", c.probe.render(nm), nm.slot(x), a));
        }
    }
    obs.nontrivial = any_red;
    Ok(())
}

fn slots_strategy() -> BoxedStrategy<SlotCase> {
    let cfg = HistCfg::core();
    let sig = cfg.lang.sig();
    let g = cfg.gen.clone();
    (hist_strategy(cfg), any::<u16>(), any::<u16>(), proptest::collection::vec(any::<u16>(), 0..20))
        .prop_map(move |(hist, i, j, ch)| {
            let terms = hist.terms();
            let probe = if terms.is_empty() {
                cap_fv(&gen_tm(&sig, &g, &mut Src::new(&ch), 0), 3)
            } else {
                // a context around a subterm of an inserted term, with names rotated
                let t = &terms[idx(i, terms.len())];
                let subs = t.subterms();
                let s = subs[idx(j, subs.len())].clone();
                let k = (ch.first().copied().unwrap_or(0) % 4) as u8;
                let s = s.rename_all(&|n| if n < 4 { (n + k) % 4 } else { n });
                match ch.get(1).copied().unwrap_or(0) % 3 {
                    0 => s,
                    1 => Tm::node("w", vec![Arg::K(vec![], s)]),
                    _ => Tm::node("p", vec![Arg::K(vec![], s.clone()), Arg::K(vec![], s)]),
                }
            };
            SlotCase { hist, probe }
        })
        .boxed()
}

// ---- variants that are equal *by the ground closure* (histories without rewriting) ----

/// one mutation of a term: (subterm position, kind, choices)
pub type Mutation = (u16, u8, Vec<u16>);

#[derive(Clone, Debug, PartialEq, Eq, Hash, Serialize, Deserialize)]
pub struct EqCase {
    pub hist: Hist,
    /// (index of the inserted term, chain of mutations applied to it)
    pub probes: Vec<(u16, Vec<Mutation>)>,
    /// inserted terms (by index choice) of which every copy with permuted free names is a candidate as well
    #[serde(default)]
    pub all_perms_of: Vec<u16>,
}

/// candidate = term with some subterm's free names permuted / a subterm exchanged for another inserted (sub)term /
/// one name replaced.  Whether the candidate is equal to the original is decided by the oracle, not by construction.
fn mutate(t: &Tm, all_subs: &[Tm], (pos, kind, ch): &Mutation) -> Tm {
    let n = t.size();
    let i = idx(*pos, n);
    let sub = nth_subterm(t, i).clone();
    let mut src = Src::new(ch);
    let new_sub = match kind % 4 {
        0 | 1 => {
            // permute the free names of the subterm among themselves
            let fv: Vec<Name> = sub.fv().into_iter().collect();
            if fv.len() < 2 {
                return t.clone();
            }
            let mut img = fv.clone();
            for k in (1..img.len()).rev() {
                let j = src.pick(k + 1);
                img.swap(k, j);
            }
            if img == fv {
                img.rotate_left(1);
            }
            let m: BTreeMap<Name, Name> = fv.iter().copied().zip(img.into_iter()).collect();
            rename_free_simple(&sub, &m)
        }
        2 => {
            // exchange for another inserted (sub)term, names rotated
            if all_subs.is_empty() {
                return t.clone();
            }
            let o = &all_subs[src.pick(all_subs.len())];
            let k = src.pick(4) as u8;
            o.rename_all(&|n| if n < 4 { (n + k) % 4 } else { n })
        }
        _ => {
            // one free name of the subterm replaced by another alphabet name (equal iff that position is redundant or a symmetry helps)
            let fv: Vec<Name> = sub.fv().into_iter().collect();
            if fv.is_empty() {
                return t.clone();
            }
            let x = fv[src.pick(fv.len())];
            let y = src.pick(5) as Name;
            if fv.contains(&y) {
                return t.clone();
            }
            let m: BTreeMap<Name, Name> = [(x, y)].into_iter().collect();
            rename_free_simple(&sub, &m)
        }
    };
    replace_nth(t, i, &new_sub)
}

fn run_eq(c: &EqCase, obs: &mut Obs) -> Result<(), String> {
    crate::with_lang!(c.hist.lang, L => run_eq_l::<L>(c, obs))
}

fn run_eq_l<L: Language>(c: &EqCase, obs: &mut Obs) -> Result<(), String> {
    let nm = &c.hist.naming;
    let terms = c.hist.terms();
    if terms.is_empty() {
        return Ok(());
    }
    if let Some(k) = crate::known::route_history(&c.hist) {
        obs.skip = Some(k);
        return Ok(());
    }
    let mut all_subs: Vec<Tm> = Vec::new();
    for t in &terms {
        for s in t.subterms() {
            if !all_subs.contains(s) {
                all_subs.push(s.clone());
            }
        }
    }
    // candidates
    let mut cands: Vec<(usize, Tm)> = Vec::new();
    for (i, muts) in &c.probes {
        let ti = idx(*i, terms.len());
        let mut t = terms[ti].clone();
        for m in muts {
            t = mutate(&t, &all_subs, m);
        }
        if cands.len() < 10 && t != terms[ti] && !t.has_same_node_shadowing() && t.size() <= 30 && !cands.iter().any(|(_, u)| *u == t) {
            cands.push((ti, t));
        }
    }
    // systematic candidates: every permutation of the free names of a chosen inserted term (2-4 names)
    for i in &c.all_perms_of {
        let ti = idx(*i, terms.len());
        let fv: Vec<Name> = terms[ti].fv().into_iter().collect();
        if !(2..=4).contains(&fv.len()) || terms[ti].size() > 12 {
            continue;
        }
        for img in crate::props::c10::all_perms_k(fv.len()) {
            let m: BTreeMap<Name, Name> = fv.iter().enumerate().map(|(a, n)| (*n, fv[img[a] as usize])).collect();
            let t = crate::hist::unfreshen(&terms[ti].rename_free(&m));
            if cands.len() < 40 && t != terms[ti] && !t.has_same_node_shadowing() && !cands.iter().any(|(_, u)| *u == t) {
                cands.push((ti, t));
            }
        }
        obs.label("all-permuted-copies-probed");
    }
    if cands.is_empty() {
        return Ok(());
    }
    let mut universe = terms.clone();
    universe.extend(cands.iter().map(|(_, t)| t.clone()));
    let m = Ground::max_fv(&universe);
    let maxnb = universe.iter().flat_map(|t| t.subterms()).flat_map(|s| s.kids().into_iter().map(|(b, _)| b.len()).collect::<Vec<_>>()).max().unwrap_or(0);
    let mut g = Ground::new(&universe, (2 * m + maxnb.max(1)).max(3));
    // bounded by generated size (the closure of a universe of millions of ground nodes takes minutes)
    if g.too_big || g.node_count > 100_000 {
        obs.label("oracle-too-big");
        return Ok(());
    }
    let mut eg: EGraph<L> = EGraph::default();
    let mut ids = Vec::new();
    let mut added = Vec::new();
    for op in &c.hist.ops {
        match op {
            HOp::Add(t) => {
                ids.push(eg.add_expr(parse_tm::<L>(t, nm)));
                added.push(t.clone());
            }
            HOp::Union(i, j) => {
                eg.union(&ids[*i], &ids[*j]);
                g.assert_eq(&added[*i], &added[*j]);
            }
        }
    }
    let tracked = ids.clone();
    for (ti, t) in &cands {
        // equal to the original, or to any other inserted term
        let mut partner: Option<usize> = None;
        if g.eq_terms(t, &terms[*ti]) == Some(true) {
            partner = Some(*ti);
        } else {
            for (k, u) in terms.iter().enumerate() {
                if g.eq_terms(t, u) == Some(true) {
                    partner = Some(k);
                    break;
                }
            }
        }
        obs.cmp(1);
        let re = parse_tm::<L>(t, nm);
        let fp0 = fingerprint(&eg, &tracked);
        let r = lookup_rec_expr(&re, &eg);
        match partner {
            Some(k) => {
                obs.label("closure-equal-variant");
                obs.nontrivial = true;
                let Some(r) = r else {
                    return Err(format!(
                        "{} is equal to the inserted term {} through the asserted equations (ground closure), so it is represented, but lookup fails",
                        t.render(nm),
                        terms[k].render(nm)
                    ));
                };
                let a = eg.add_expr(re);
                let fp1 = fingerprint(&eg, &tracked);
                if fp0.classes != fp1.classes || fp0.nodes != fp1.nodes {
                    return Err(format!(
                        "inserting {} (equal to the inserted term {} through the asserted equations) created something: classes {} -> {}, e-nodes {} -> {}",
                        t.render(nm),
                        terms[k].render(nm),
                        fp0.classes,
                        fp1.classes,
                        fp0.nodes,
                        fp1.nodes
                    ));
                }
                if !eg.eq(&r, &a) {
                    return Err(format!("lookup of {} gives {:?}, add gives {:?}: not equal", t.render(nm), r, a));
                }
                if !eg.eq(&a, &ids[k]) {
                    return Err(format!(
                        "add({}) = {:?} is not equal to the invocation {:?} of {} although the asserted equations make the terms equal",
                        t.render(nm),
                        a,
                        ids[k],
                        terms[k].render(nm)
                    ));
                }
            }
            None => {
                obs.label("closure-unequal-variant");
                let a = eg.add_expr(re);
                let fp1 = fingerprint(&eg, &tracked);
                let created = fp0.classes != fp1.classes || fp0.nodes != fp1.nodes;
                if r.is_some() == created {
                    return Err(format!("lookup of {} returned {:?} but inserting it {}", t.render(nm), r, if created { "created something" } else { "created nothing" }));
                }
                if let Some(r) = r {
                    if !eg.eq(&r, &a) {
                        return Err(format!("lookup of {} gives {:?}, add gives {:?}: not equal", t.render(nm), r, a));
                    }
                }
            }
        }
    }
    Ok(())
}

fn eq_strategy(lang: LangId, max_ops: usize) -> BoxedStrategy<EqCase> {
    let mut cfg = HistCfg::for_lang(lang);
    cfg.max_ops = max_ops;
    let mutation = (any::<u16>(), any::<u8>(), proptest::collection::vec(any::<u16>(), 0..6));
    (hist_strategy(cfg), proptest::collection::vec((any::<u16>(), proptest::collection::vec(mutation, 1..3)), 6..16), proptest::collection::vec(any::<u16>(), 0..3))
        .prop_map(|(hist, probes, all_perms_of)| EqCase { hist, probes, all_perms_of })
        .boxed()
}

fn render_eq(c: &EqCase) -> String {
    format!("{} probes={:?} all-permuted-copies-of={:?}", c.hist.render(), c.probes, c.all_perms_of)
}

pub fn property(tier: Tier) -> Property {
    let mut stages: Vec<Box<dyn DynStage>> = Vec::new();
    for (name, lang, q, t) in [
        ("probe-core", LangId::Core, 6000u32, 120_000u32),
        ("probe-lambda", LangId::Lambda, 1500, 30_000),
        ("probe-sdql", LangId::Sdql, 1000, 20_000),
        ("probe-arith", LangId::Arith, 1000, 20_000),
    ] {
        let max_ops = tier.pick(7, 10);
        stages.push(Box::new(Stage {
            name,
            source: random(move || strategy(lang, max_ops), tier.pick(q, t)),
            run,
            panic_is_violation: false,
            render,
            rule: "a reachable e-graph (mixed history incl. rewriting) followed by probe terms: literal re-insertion, alpha-variant, free renaming, subterm replaced by a union-equal term, subterm, arbitrary term; lookup <=> add creates nothing, eq(lookup, add), lookup changes nothing, renaming equivariance; non-trivial = a non-literal variant of a represented term was probed, or a literal one on an e-graph with a symmetry or a redundancy; distinct by rendered case",
            case_timeout_s: tier.pick(30, 120),
            exhaustive: false,
        }));
    }
    {
        let max_ops = tier.pick(7, 10);
        stages.push(Box::new(Stage {
            name: "probe-core-analysis",
            source: random(move || strategy(LangId::Core, max_ops), tier.pick(2000, 40_000)),
            run: run_with_analysis,
            panic_is_violation: false,
            render,
            rule: "as probe-core, on e-graphs that carry an analysis (smallest term size) whose data change in unions and rewrites",
            case_timeout_s: tier.pick(30, 120),
            exhaustive: false,
        }));
    }
    {
        let max_ops = tier.pick(8, 12);
        stages.push(Box::new(Stage {
            name: "probe-core-modify-hook",
            source: random(
                move || {
                    let mut cfg = MixedCfg { max_ops, allow_extraction_subst: false, ..MixedCfg::for_lang(LangId::Core) };
                    cfg.hist.namings = Naming::diverse();
                    cfg.hist.gen.ops = Some(vec!["v", "f2", "g3", "c0", "c0", "w", "w", "w", "p", "p", "lam"]);
                    let sig = LangId::Core.sig();
                    let gcfg = cfg.hist.gen.clone();
                    let probe = crate::one_of![
                        2 => any::<u16>().prop_map(Probe::Literal),
                        2 => any::<u16>().prop_map(Probe::Alpha),
                        2 => (any::<u16>(), any::<u8>()).prop_map(|(i, k)| Probe::Renamed(i, k)),
                        4 => proptest::collection::vec(any::<u16>(), 0..30).prop_map(move |ch| Probe::Fresh(cap_fv(&gen_tm(&sig, &gcfg, &mut Src::new(&ch), 0), 3))),
                    ];
                    (mixed_strategy(cfg), proptest::collection::vec(probe, 1..6), any::<u8>()).prop_map(|(base, probes, rot)| ProbeCase { base, probes, rot }).boxed()
                },
                tier.pick(2500, 50_000),
            ),
            run: run_modify,
            panic_is_violation: false,
            render,
            rule: "a reachable e-graph with an analysis whose modify hook asserts w(w(x)) = x and (p x c0) = c0 by unions of its own (terms rich in w), then probe terms: every invocation returned by an insertion - in the history and for the probes - has exactly the slots of its canonical form and is equal to it, its slots are free names of the term, lookup afterwards returns an equal invocation with the same slots, a second insertion changes nothing and returns the same; non-trivial = during some insertion a class was allocated and merged away again (classes allocated grew by more than live classes)",
            case_timeout_s: tier.pick(30, 120),
            exhaustive: false,
        }));
    }
    stages.push(Box::new(Stage {
        name: "probe-through-node",
        source: Source::Enumerate(std::sync::Arc::new(move || {
            let v: Vec<ProbeCase> = crate::props::c01::through_node_cases(tier)
                .into_iter()
                .chain(crate::props::c01::transfer_cases(4, false).into_iter())
                .map(|h| {
                    let n = h.terms().len();
                    let ops = h.ops.iter().map(|o| match o {
                        HOp::Add(t) => MOp::Add(t.clone()),
                        HOp::Union(a, b) => MOp::Union(*a, *b),
                    }).collect();
                    ProbeCase { base: Mixed { lang: h.lang, naming: h.naming.clone(), ops, extraction_subst: false, rule_slot_variant: 0 }, probes: (0..n).map(Probe::Term).collect(), rot: 1 }
                })
                .collect();
            Box::new(v.into_iter())
        })),
        run,
        panic_is_violation: false,
        render,
        rule: "exhaustive: the symmetry-transfer and symmetry-through-a-moved-e-node families of C01/C02 as base histories; afterwards every inserted term is looked up and re-inserted (must create nothing)",
        case_timeout_s: tier.pick(30, 120),
        exhaustive: true,
    }));
    for (name, lang, q, t) in [("probe-equal-core", LangId::Core, 3000u32, 100_000u32), ("probe-equal-lambda", LangId::Lambda, 600, 20_000), ("probe-equal-fgh", LangId::Fgh, 600, 20_000)] {
        let max_ops = tier.pick(7, 9);
        stages.push(Box::new(Stage {
            name,
            source: random(move || eq_strategy(lang, max_ops), tier.pick(q, t)),
            run: run_eq,
            panic_is_violation: false,
            render: render_eq,
            rule: "add/union history, then variants of inserted terms obtained by chains of 1-3 mutations (free names of a subterm permuted, a subterm exchanged for another inserted subterm, one name replaced); the ground congruence closure over history + variants decides whether a variant equals an inserted term: if so lookup must find it, add must create nothing and return an invocation equal to that term's; otherwise lookup <=> add creates nothing; non-trivial = the closure proves a (syntactically different) variant equal; distinct by rendered case",
            case_timeout_s: tier.pick(30, 120),
            exhaustive: false,
        }));
    }
    stages.push(Box::new(Stage {
        name: "probe-slots",
        source: random(slots_strategy, tier.pick(4000, 80_000)),
        run: run_slots,
        panic_is_violation: false,
        render: |c: &SlotCase| format!("{} probe={}", c.hist.render(), c.probe.render(&c.hist.naming)),
        rule: "add/union history, then a probe term built around a renamed subterm; the returned invocation must omit every free name the ground closure shows redundant; non-trivial = the probe has a redundant name",
        case_timeout_s: tier.pick(30, 120),
        exhaustive: false,
    }));
    Property { id: "C09", scale: tier.pick(5, 2), stages, assumptions: vec![
        "'represented' for variants is decided by construction (alpha-variant, renaming, replacement of a subterm by a term it was united with) or, in the probe-equal stages, by the ground congruence closure: a term the closure proves equal to an inserted term is represented (every equality the closure derives is a consequence of the asserted equations, for any pool size)".into(),
    ] }
}
