//! C01 — equality is sound.
use super::closure::*;
use crate::engine::*;
use crate::hist::*;
use crate::langs::LangId;
use crate::tm::*;
use std::sync::Arc;

pub fn run_case(c: &Hist, obs: &mut Obs) -> Result<(), String> {
    run_closure(c, Dir::Sound, obs)
}

pub fn run_case_analysis(c: &Hist, obs: &mut Obs) -> Result<(), String> {
    run_closure_analysis(c, Dir::Sound, obs)
}

pub fn stages(tier: Tier, run: RunFn<Hist>, run_analysis: RunFn<Hist>, rule: &'static str) -> Vec<Box<dyn DynStage>> {
    let mut v: Vec<Box<dyn DynStage>> = Vec::new();
    let langs: Vec<(LangId, &'static str, u32, u32)> = vec![
        (LangId::Core, "hist-core", 4000, 120_000),
        (LangId::Lambda, "hist-lambda", 800, 20_000),
        (LangId::Fgh, "hist-fgh", 800, 20_000),
        (LangId::Sdql, "hist-sdql", 600, 15_000),
        (LangId::Arith2, "hist-arith2", 500, 10_000),
        (LangId::ArrayLang, "hist-array", 500, 10_000),
    ];
    for (l, name, q, t) in langs {
        let mut cfg = HistCfg::for_lang(l);
        cfg.namings = Naming::diverse();
        cfg.max_ops = tier.pick(6, 9);
        v.push(Box::new(Stage {
            name,
            source: random(move || hist_strategy(cfg.clone()), tier.pick(q, t)),
            run,
            panic_is_violation: false,
            render: |c: &Hist| c.render(),
            rule,
            case_timeout_s: tier.pick(30, 120),
            exhaustive: false,
        }));
    }
    {
        let mut cfg = HistCfg::for_lang(LangId::Core);
        cfg.namings = Naming::diverse();
        cfg.max_ops = tier.pick(6, 9);
        v.push(Box::new(Stage {
            name: "hist-core-analysis",
            source: random(move || hist_strategy(cfg.clone()), tier.pick(1200, 30_000)),
            run: run_analysis,
            panic_is_violation: false,
            render: |c: &Hist| c.render(),
            rule: "as hist-core, on an e-graph that carries an analysis (smallest term size): unions change class data, so analysis-only and structural re-processing of e-nodes are interleaved in the rebuild",
            case_timeout_s: tier.pick(30, 120),
            exhaustive: false,
        }));
    }
    // symmetric class meets a class whose parent has a redundant slot (exhaustive over small generator sets)
    let max_k = tier.pick(4, 4);
    v.push(Box::new(Stage {
        name: "symmetry-transfer",
        source: Source::Enumerate(Arc::new(move || Box::new(transfer_cases(max_k, false).into_iter()))),
        run,
        panic_is_violation: false,
        render: |c: &Hist| c.render(),
        rule: "exhaustive: a k-slot leaf g made symmetric by every set of <= 2 permutations (k = 3 and k = 4), a second k-slot leaf h whose parent (w (h ..)) already lost one slot, then g = h asserted in either orientation, so that h's class receives all generators at once while its parent has a redundant slot; all (sub)terms compared with the ground closure",
        case_timeout_s: tier.pick(30, 120),
        exhaustive: true,
    }));
    v.push(Box::new(Stage {
        name: "symmetry-through-node",
        source: Source::Enumerate(Arc::new(move || Box::new(through_node_cases(tier).into_iter()))),
        run,
        panic_is_violation: false,
        render: |c: &Hist| c.render(),
        rule: "exhaustive: a parent (p (g ..) (g pi(..))) that uses one k-slot class twice in two argument orders, then (w (h ..)) = (g ..) asserted in either orientation (the w-node now lives in g's class but stems from a dead class), then h made symmetric by every set of <= 2 permutations (k = 3; k = 4 with every 6th argument order pi in the quick tier, all in the thorough tier): g's class learns its symmetry through a moved e-node and its parent has to be re-canonicalised; all (sub)terms compared with the ground closure",
        case_timeout_s: tier.pick(30, 120),
        exhaustive: true,
    }));
    // a symmetric k-slot class loses one slot (exhaustive over small generator sets, two ways of losing it)
    v.push(Box::new(Stage {
        name: "redundancy-in-symmetric-class",
        source: Source::Enumerate(Arc::new(move || {
            let mut out: Vec<Hist> = Vec::new();
            let mut i = 0usize;
            for c in crate::props::c10::exhaustive_sets(4) {
                if c.gens.is_empty() || c.gens.len() > 2 || c.k < 3 {
                    continue;
                }
                for d in 0..c.k {
                    for variant in 0..2u8 {
                        i += 1;
                        if c.k == 4 && tier == Tier::Quick && i % 4 != 0 {
                            continue;
                        }
                        let mut h = crate::props::c10::red_hist(&crate::props::c10::RedCase { k: c.k, gens: c.gens.clone(), drop: d });
                        if variant == 1 {
                            // instead of a renamed copy: a smaller leaf over the remaining names
                            let k = c.k as usize;
                            let rest: Vec<Name> = (0..k as Name).filter(|x| *x != d as Name).collect();
                            let small = Tm::leaf(if rest.len() == 3 { "h3" } else { "f2" }, &rest);
                            let n = h.ops.len();
                            h.ops[n - 2] = HOp::Add(small);
                            // every permuted copy of the big leaf is compared
                            for p in crate::props::c10::all_perms_k(k) {
                                h.ops.push(HOp::Add(crate::props::c10::leaf_term(k, &p)));
                            }
                        }
                        out.push(h);
                    }
                }
            }
            Box::new(out.into_iter())
        })),
        run,
        panic_is_violation: false,
        render: |c: &Hist| c.render(),
        rule: "exhaustive: a k-slot leaf (k = 3, 4) made symmetric by every set of 1-2 permutations, then one slot (each in turn) made redundant, either by a union with a copy in which that slot is renamed or by a union with a smaller leaf over the other names (k = 4: every fourth combination in the quick tier); which slots stay, which become redundant with it (the rest of its orbit) and which symmetries survive is judged by the ground closure",
        case_timeout_s: tier.pick(30, 120),
        exhaustive: true,
    }));
    v
}

pub fn through_node_cases(tier: Tier) -> Vec<Hist> {
    let mut out = Vec::new();
    for k in [3usize, 4] {
        let (g, h) = if k == 3 { ("g3", "h3") } else { ("g4", "h4") };
        let ps = perms_k(k);
        let id: Vec<u8> = (0..k as u8).collect();
        let mut sets: Vec<Vec<Vec<u8>>> = Vec::new();
        for a in 0..ps.len() {
            if ps[a] == id {
                continue;
            }
            sets.push(vec![ps[a].clone()]);
            for b in a + 1..ps.len() {
                if ps[b] == id {
                    continue;
                }
                sets.push(vec![ps[a].clone(), ps[b].clone()]);
            }
        }
        for set in &sets {
            for (pi_i, pi) in ps.iter().enumerate() {
                if *pi == id {
                    continue;
                }
                if k == 4 && tier == Tier::Quick && pi_i % 6 != 1 {
                    continue;
                }
                for orient in 0..2 {
                    let leaf = |op: &str, p: &Vec<u8>| Tm::leaf(op, &p.iter().map(|x| *x as Name).collect::<Vec<_>>());
                    let kk = |t: Tm| Arg::K(vec![], t);
                    let mut ops = Vec::new();
                    let mut n = 0usize;
                    let mut add = |t: Tm, ops: &mut Vec<HOp>| -> usize {
                        ops.push(HOp::Add(t));
                        n += 1;
                        n - 1
                    };
                    add(Tm::node("p", vec![kk(leaf(g, &id)), kk(leaf(g, pi))]), &mut ops);
                    let y = add(Tm::node("w", vec![kk(leaf(h, &id))]), &mut ops);
                    let x = add(leaf(g, &id), &mut ops);
                    ops.push(if orient == 0 { HOp::Union(y, x) } else { HOp::Union(x, y) });
                    let hb = add(leaf(h, &id), &mut ops);
                    for p in set {
                        let hp = add(leaf(h, p), &mut ops);
                        ops.push(HOp::Union(hb, hp));
                    }
                    out.push(Hist { lang: LangId::Core, naming: Naming::Alpha, ops });
                }
            }
        }
    }
    out
}

fn perms_k(k: usize) -> Vec<Vec<u8>> {
    crate::egx::perms(&(0..k as u8).collect::<Vec<u8>>())
}

pub fn transfer_cases(max_k: usize, quick: bool) -> Vec<Hist> {
    let mut out = Vec::new();
    let mut ks = vec![3usize];
    if max_k >= 4 || quick {
        ks.push(4);
    }
    for k in ks {
        let (g, h) = if k == 3 { ("g3", "h3") } else { ("g4", "h4") };
        let ps = perms_k(k);
        let id: Vec<u8> = (0..k as u8).collect();
        let mut sets: Vec<Vec<Vec<u8>>> = vec![vec![]];
        for a in 0..ps.len() {
            if ps[a] == id {
                continue;
            }
            sets.push(vec![ps[a].clone()]);
            for b in a + 1..ps.len() {
                if ps[b] == id {
                    continue;
                }
                sets.push(vec![ps[a].clone(), ps[b].clone()]);
            }
        }
        for set in sets {
            if k == 4 && quick {
                // quick tier: only sets of two disjoint transpositions-like generators (each generator moves exactly two points)
                let small = set.len() == 2 && set.iter().all(|p| p.iter().enumerate().filter(|(i, v)| *i as u8 != **v).count() == 2);
                if !small {
                    continue;
                }
            }
            for d in 0..k {
                for orient in 0..2 {
                    let leaf = |op: &str, p: &Vec<u8>| Tm::leaf(op, &p.iter().map(|x| *x as Name).collect::<Vec<_>>());
                    let mut ops = Vec::new();
                    let mut n = 0usize;
                    let mut add = |t: Tm, ops: &mut Vec<HOp>| -> usize {
                        ops.push(HOp::Add(t));
                        n += 1;
                        n - 1
                    };
                    // 1. parent of h loses slot d
                    let w = |t: Tm| Tm::node("w", vec![Arg::K(vec![], t)]);
                    let mut ren = id.clone();
                    ren[d] = k as u8;
                    let p1 = add(w(leaf(h, &id)), &mut ops);
                    let p2 = add(w(leaf(h, &ren)), &mut ops);
                    ops.push(HOp::Union(p1, p2));
                    // 2. g symmetric under the set
                    let a = add(leaf(g, &id), &mut ops);
                    for p in &set {
                        let b = add(leaf(g, p), &mut ops);
                        ops.push(HOp::Union(a, b));
                    }
                    // 3. g = h
                    let b = add(leaf(h, &id), &mut ops);
                    ops.push(if orient == 0 { HOp::Union(a, b) } else { HOp::Union(b, a) });
                    out.push(Hist { lang: LangId::Core, naming: Naming::Alpha, ops });
                }
            }
        }
    }
    out
}

pub fn property(tier: Tier) -> Property {
    Property {
        id: "C01", scale: tier.pick(5, 2),
        stages: stages(
            tier,
            run_case,
            run_case_analysis,
            "histories of add_expr/union built from recipes (unrelated / permuted copy / renamed copy / context around renamed copy / reordered leaves / existing terms); non-trivial = at least one effective union and at least one queried pair that both sides report unequal after it; distinct by rendered history",
        ),
        assumptions: vec![
            "ground closure oracle is complete at pool size 3m+1 (DESIGN 2.4); verdicts are only issued at that bound".into(),
            "terms have at most 3 free names per subterm, depth <= 3".into(),
        ],
    }
}
