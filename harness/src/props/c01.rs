//! C01 — equality is sound.
use super::closure::*;
use crate::engine::*;
use crate::hist::*;
use crate::langs::LangId;

fn run(c: &Hist, obs: &mut Obs) -> Result<(), String> {
    run_closure(c, Dir::Sound, obs)
}

pub fn stages(tier: Tier, run: RunFn<Hist>, rule: &'static str) -> Vec<Box<dyn DynStage>> {
    let mut v: Vec<Box<dyn DynStage>> = Vec::new();
    let langs: Vec<(LangId, &'static str, u32, u32)> = vec![
        (LangId::Core, "hist-core", 4000, 120_000),
        (LangId::Lambda, "hist-lambda", 800, 20_000),
        (LangId::Fgh, "hist-fgh", 800, 20_000),
        (LangId::Sdql, "hist-sdql", 600, 15_000),
    ];
    for (l, name, q, t) in langs {
        let mut cfg = HistCfg::for_lang(l);
        cfg.max_ops = tier.pick(6, 9);
        v.push(Box::new(Stage {
            name,
            source: random(move || hist_strategy(cfg.clone()), tier.pick(q, t)),
            run,
            panic_is_violation: false,
            render: |c: &Hist| c.render(),
            rule,
            case_timeout_s: tier.pick(60, 300),
            exhaustive: false,
        }));
    }
    v
}

pub fn property(tier: Tier) -> Property {
    Property {
        id: "C01", scale: tier.pick(5, 2),
        stages: stages(
            tier,
            run,
            "histories of add_expr/union built from recipes (unrelated / permuted copy / renamed copy / context around renamed copy / reordered leaves / existing terms); non-trivial = at least one effective union and at least one queried pair that both sides report unequal after it; distinct by rendered history",
        ),
        assumptions: vec![
            "ground closure oracle is complete at pool size 3m+1 (DESIGN 2.4); verdicts are only issued at that bound".into(),
            "terms have at most 3 free names per subterm, depth <= 3".into(),
        ],
    }
}
