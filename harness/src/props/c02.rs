//! C02 — congruence closure is complete.
use super::closure::*;
use crate::engine::*;
use crate::hist::*;

pub fn run_case(c: &Hist, obs: &mut Obs) -> Result<(), String> {
    run_closure(c, Dir::Complete, obs)
}

pub fn run_case_analysis(c: &Hist, obs: &mut Obs) -> Result<(), String> {
    run_closure_analysis(c, Dir::Complete, obs)
}

pub fn property(tier: Tier) -> Property {
    Property {
        id: "C02", scale: tier.pick(5, 2),
        stages: super::c01::stages(
            tier,
            run_case,
            run_case_analysis,
            "same generator as C01; non-trivial = the closure derives an equality between terms that were not the operands of a union, or a redundancy, or a symmetry; distinct by rendered history",
        ),
        assumptions: vec!["every equality the ground closure derives is a consequence of the asserted equations (sound for any pool size)".into()],
    }
}
