//! C17 — fresh slots are globally new; slot names are injective.
use crate::engine::*;
use crate::langs::Core;
use proptest::prelude::*;
use serde::{Deserialize, Serialize};
use slotted_egraphs::*;
use std::collections::BTreeMap;

#[derive(Clone, Debug, Serialize, Deserialize, PartialEq, Eq)]
pub enum SlotOp {
    Fresh,
    Numeric(u32),
    Named(String),
    /// print the i-th slot obtained so far and parse the name back
    RoundTrip(u16),
    /// obtain the slot through the term parser: (v $name)
    Parse(String),
}

#[derive(Clone, Debug, Serialize, Deserialize)]
pub struct SlotSeq {
    pub ops: Vec<SlotOp>,
}

/// names the parser's tokenizer accepts after '$': no whitespace, no brackets, non-empty
fn tokenizable(s: &str) -> bool {
    !s.is_empty() && !s.chars().any(|c| c.is_whitespace() || "()[]".contains(c))
}

/// is this name in the property's domain?  purely numeric spellings (optional sign, leading zeros)
/// must denote a number below 2^30, likewise f<number>
fn in_domain(s: &str) -> bool {
    let body = s.strip_prefix('f').unwrap_or(s);
    if let Ok(x) = body.parse::<u64>() {
        return x < (1 << 30);
    }
    // things like "+7" parse as u32 in Rust
    if let Some(b) = body.strip_prefix('+') {
        if let Ok(x) = b.parse::<u64>() {
            return x < (1 << 30);
        }
    }
    if body.chars().all(|c| c.is_ascii_digit()) && !body.is_empty() {
        return false; // huge digit string
    }
    true
}

fn name_strategy() -> BoxedStrategy<String> {
    crate::one_of![ 
        16 => (0u32..40).prop_map(|n| n.to_string()),
        8 => (0u32..(1 << 30)).prop_map(|n| n.to_string()),
        12 => (0u32..12).prop_map(|n| format!("f{}", n)),
        4 => (0u32..(1 << 30)).prop_map(|n| format!("f{}", n)),
        8 => (0u32..12, 1usize..3).prop_map(|(n, z)| format!("{}{}", "0".repeat(z), n)),
        4 => (0u32..12).prop_map(|n| format!("+{}", n)),
        4 => (0u32..12, 1usize..3).prop_map(|(n, z)| format!("f{}{}", "0".repeat(z), n)),
        4 => (0u32..12).prop_map(|n| format!("f+{}", n)),
        12 => "[a-z]{1,3}",
        4 => "[a-zA-Z0-9_+.-]{1,12}",
        4 => "\\PC{1,6}",
        4 => Just("f".to_string()),
        4 => Just("-0".to_string()),
        4 => Just("ff1".to_string()),
        // the boundary of the domain: the largest numbers below 2^30 (D21)
        1 => (0u32..3).prop_map(|d| format!("f{}", (1u32 << 30) - 1 - d)),
        1 => (0u32..3).prop_map(|d| format!("{}", (1u32 << 30) - 1 - d)),
        4 => "[a-z]{30,60}",
    ]
    .prop_filter("domain", |s| in_domain(s))
    .boxed()
}

fn op_strategy() -> BoxedStrategy<SlotOp> {
    crate::one_of![ 
        4 => Just(SlotOp::Fresh),
        2 => (0u32..64).prop_map(SlotOp::Numeric),
        1 => (0u32..(1 << 30)).prop_map(SlotOp::Numeric),
        5 => name_strategy().prop_map(SlotOp::Named),
        2 => any::<u16>().prop_map(SlotOp::RoundTrip),
        2 => name_strategy().prop_filter("tokenizable", |s| tokenizable(s)).prop_map(SlotOp::Parse),
    ]
    .boxed()
}

fn run(c: &SlotSeq, obs: &mut Obs) -> Result<(), String> {
    // model: spelled name -> slot; and the reverse
    let mut by_name: BTreeMap<String, Slot> = BTreeMap::new();
    let mut by_slot: BTreeMap<Slot, String> = BTreeMap::new();
    let mut all: Vec<Slot> = Vec::new();
    let mut max_f: Option<u32> = None;
    // model of the fresh counter: the smallest number no f<n> name and no fresh slot has used or skipped
    let mut model_next: u64 = 0;
    let mut note_f = |n: &str, model_next: &mut u64| {
        if let Some(r) = n.strip_prefix('f') {
            if let Ok(x) = r.parse::<u32>() {
                if r == x.to_string() && (x as u64) < (1u64 << 30) {
                    *model_next = (*model_next).max(x as u64 + 1);
                }
            }
        }
    };
    let mut fresh_after_f = false;
    let mut leading_zero_pair = false;
    let record = |name: String, s: Slot, by_name: &mut BTreeMap<String, Slot>, by_slot: &mut BTreeMap<Slot, String>| -> Result<(), String> {
        if let Some(old) = by_name.get(&name) {
            if *old != s {
                return Err(format!("the name {:?} denoted {:?} before and {:?} now", name, old, s));
            }
        }
        if let Some(old_name) = by_slot.get(&s) {
            if *old_name != name {
                return Err(format!("distinct names {:?} and {:?} denote the same slot {:?}", old_name, name, s));
            }
        }
        by_name.insert(name.clone(), s);
        by_slot.insert(s, name);
        Ok(())
    };
    for (i, op) in c.ops.iter().enumerate() {
        match op {
            SlotOp::Fresh => {
                // the only panic Slot::fresh may raise is the announced exhaustion of the 2^30 fresh numbers, and only
                // when the model agrees that none is left (a name f<2^30-1>, or a fresh slot with that number, exists)
                let f = match std::panic::catch_unwind(Slot::fresh) {
                    Ok(f) => f,
                    Err(_) => {
                        let m = crate::engine::take_last_panic().unwrap_or_default();
                        if m.contains("out of fresh slots") && model_next >= (1u64 << 30) {
                            obs.label("fresh-numbers-exhausted");
                            obs.nontrivial = true;
                            return Ok(());
                        }
                        return Err(format!("op {i}: Slot::fresh() panicked ({m}) although fresh numbers from {model_next} on are unused"));
                    }
                };
                if let Ok(k) = f.to_string()[2..].parse::<u64>() {
                    model_next = model_next.max(k + 1);
                }
                if all.contains(&f) {
                    return Err(format!("op {i}: Slot::fresh() returned {:?}, which was obtained before", f));
                }
                let shown = f.to_string();
                let name = shown[1..].to_string();
                if by_name.contains_key(&name) {
                    return Err(format!("op {i}: Slot::fresh() returned a slot printed as {}, a name used before", shown));
                }
                if max_f.is_some() {
                    fresh_after_f = true;
                }
                record(name, f, &mut by_name, &mut by_slot)?;
                all.push(f);
            }
            SlotOp::Numeric(u) => {
                let s = Slot::numeric(*u);
                if s.to_string() != format!("${}", u) {
                    return Err(format!("numeric({u}) prints as {}", s));
                }
                if Slot::named(&u.to_string()) != s {
                    return Err(format!("numeric({u}) != named(\"{u}\")"));
                }
                record(u.to_string(), s, &mut by_name, &mut by_slot)?;
                all.push(s);
            }
            SlotOp::Named(n) => {
                let s = Slot::named(n);
                note_f(n, &mut model_next);
                if let Some(r) = n.strip_prefix('f') {
                    if let Ok(x) = r.parse::<u32>() {
                        if r == x.to_string() {
                            max_f = Some(max_f.map(|m| m.max(x)).unwrap_or(x));
                        }
                    }
                }
                let canonical_digits = n.parse::<u32>().map(|x| x.to_string() != *n).unwrap_or(false);
                if canonical_digits || n.starts_with("f0") || n.starts_with("f+") {
                    leading_zero_pair = true;
                }
                // printing and parsing back gives the same slot, and prints the same name
                let shown = s.to_string();
                if shown != format!("${}", n) {
                    return Err(format!("named({:?}) prints as {}", n, shown));
                }
                if Slot::named(&shown[1..]) != s {
                    return Err(format!("named({:?}) printed as {} parses back to a different slot", n, shown));
                }
                record(n.clone(), s, &mut by_name, &mut by_slot)?;
                all.push(s);
            }
            SlotOp::RoundTrip(k) => {
                if all.is_empty() {
                    continue;
                }
                let s = all[(*k as usize * all.len()) >> 16];
                let shown = s.to_string();
                let back = Slot::named(&shown[1..]);
                if back != s {
                    return Err(format!("slot printed as {} parses back to a different slot ({})", shown, back));
                }
            }
            SlotOp::Parse(n) => {
                let txt = format!("(v ${})", n);
                let re = RecExpr::<Core>::parse(&txt).map_err(|e| format!("{txt} does not parse: {e:?}"))?;
                let sl = re.node.slots();
                if sl.len() != 1 {
                    return Err(format!("{txt} parsed to a node with slots {:?}", sl));
                }
                let s = *sl.iter().next().unwrap();
                if s != Slot::named(n) {
                    return Err(format!("parser and Slot::named disagree on {:?}", n));
                }
                note_f(n, &mut model_next);
                if re.to_string() != txt {
                    return Err(format!("{txt} prints back as {}", re));
                }
                record(n.clone(), s, &mut by_name, &mut by_slot)?;
                all.push(s);
            }
        }
        obs.cmp(1);
    }
    if fresh_after_f {
        obs.label("fresh-after-f<n>");
    }
    if leading_zero_pair {
        obs.label("non-canonical-number-spelling");
    }
    obs.nontrivial = fresh_after_f || leading_zero_pair;
    Ok(())
}

/// many distinct ordinary names in one thread, each mentioned again later (directly, through the term parser, or printed and
/// parsed back): the interner's behaviour beyond any small-table threshold
fn many_names_strategy(max_names: usize) -> BoxedStrategy<SlotSeq> {
    (10usize..max_names, any::<u8>(), proptest::collection::vec(any::<u16>(), 20..260))
        .prop_map(|(n, style, picks)| {
            let name = |i: usize| -> String {
                match style % 4 {
                    0 => format!("v{}", i),
                    1 => {
                        // base-26 words
                        let mut k = i;
                        let mut w = String::new();
                        loop {
                            w.push((b'a' + (k % 26) as u8) as char);
                            k /= 26;
                            if k == 0 {
                                break;
                            }
                        }
                        w
                    }
                    2 => format!("x_{}_{}", i % 7, i),
                    _ => format!("{}n", i),
                }
            };
            let mut ops = Vec::new();
            let mut introduced = 0usize;
            for c in picks {
                if introduced < n && (c % 5 < 2 || introduced == 0) {
                    ops.push(if c % 2 == 0 { SlotOp::Named(name(introduced)) } else { SlotOp::Parse(name(introduced)) });
                    introduced += 1;
                } else {
                    let i = ((c as usize / 8) * introduced) >> 13;
                    let i = i.min(introduced - 1);
                    ops.push(match c % 8 {
                        0 => SlotOp::Fresh,
                        1 | 2 => SlotOp::RoundTrip((c / 8) << 3),
                        3 | 4 => SlotOp::Parse(name(i)),
                        _ => SlotOp::Named(name(i)),
                    });
                }
            }
            SlotSeq { ops }
        })
        .boxed()
}

/// "Consequently slots invented internally never capture a user slot": the matcher's validity oracle of C05, with the
/// pattern's slots spelled with the names the library invented for class parameters (the user is free to write `$f7`).
/// Metamorphic: the same case with ordinary pattern slot names must pass first (otherwise the failure is C05's, not C17's).
fn run_no_capture_matching(c: &super::c05::MatchCase, obs: &mut Obs) -> Result<(), String> {
    let mut plain = c.clone();
    plain.pat_naming = 0;
    let mut o2 = Obs::default();
    if super::c05::run(&plain, &mut o2).is_err() {
        obs.label("fails-with-ordinary-names-too");
        return Ok(());
    }
    super::c05::run(c, obs).map_err(|e| format!("with the pattern's slots named like existing class parameter slots ($f<n>), but not with ordinary names: {e}"))
}

pub fn property(tier: Tier) -> Property {
    let mut stages: Vec<Box<dyn DynStage>> = vec![Box::new(Stage {
        name: "slot-seq",
        source: random(
            || proptest::collection::vec(op_strategy(), 0..40).prop_map(|ops| SlotSeq { ops }).boxed(),
            tier.pick(40_000, 1_000_000),
        ),
        run,
        panic_is_violation: true,
        render: |c: &SlotSeq| format!("{:?}", c.ops),
        rule: "sequences of fresh / numeric(u<2^30) / named(s) / print+parse / term-parser slot creation in a fresh thread (fresh counter at $f0, empty interner); model = map name<->slot; non-trivial = a fresh() after a named(\"f<n>\"), or a number spelled non-canonically (leading zero, sign); distinct by sequence",
        case_timeout_s: 60,
        exhaustive: false,
    })];
    let max_names = tier.pick(120, 600);
    stages.push(Box::new(Stage {
        name: "many-names",
        source: random(move || many_names_strategy(max_names), tier.pick(6_000, 100_000)),
        run: |c: &SlotSeq, obs: &mut Obs| {
            run(c, obs)?;
            let distinct: std::collections::BTreeSet<&String> = c.ops.iter().filter_map(|o| match o { SlotOp::Named(n) | SlotOp::Parse(n) => Some(n), _ => None }).collect();
            let mentions = c.ops.iter().filter(|o| matches!(o, SlotOp::Named(_) | SlotOp::Parse(_))).count();
            if distinct.len() > 16 {
                obs.label("more-than-16-names");
            }
            if distinct.len() > 64 {
                obs.label("more-than-64-names");
            }
            obs.nontrivial = distinct.len() > 16 && mentions > distinct.len();
            Ok(())
        },
        panic_is_violation: true,
        render: |c: &SlotSeq| format!("{:?}", c.ops),
        rule: "10 to 120 (thorough: 600) distinct ordinary names introduced one after another in one thread (directly or through the term parser), interleaved with repeated mentions of earlier names, print+parse round trips and fresh slots; same model as slot-seq (a name always denotes the same slot, distinct names distinct slots, fresh slots new); non-trivial = more than 16 distinct names and at least one repeated mention; distinct by sequence",
        case_timeout_s: 60,
        exhaustive: false,
    }));
    for (name, lang, q, t) in [("no-capture-matching-core", crate::langs::LangId::Core, 3000u32, 60_000u32), ("no-capture-matching-lambda", crate::langs::LangId::Lambda, 1500, 30_000)] {
        stages.push(Box::new(Stage {
            name,
            source: random(
                move || {
                    super::c05::strategy(lang)
                        .prop_map(|mut c| {
                            c.pat_naming = 1;
                            c
                        })
                        .boxed()
                },
                tier.pick(q, t),
            ),
            run: run_no_capture_matching,
            panic_is_violation: false,
            render: |c: &super::c05::MatchCase| {
                format!(
                    "{} pattern slots named like existing class slots; patterns={:?} multi={:?}",
                    c.base.render(),
                    c.pats.iter().map(|p| crate::pat::render_pat(p, &crate::tm::Naming::Alpha)).collect::<Vec<_>>(),
                    c.multi.iter().map(|e| e.iter().map(|(v, t)| format!("?{} == {}", v, crate::pat::render_pat(t, &crate::tm::Naming::Alpha))).collect::<Vec<_>>().join(", ")).collect::<Vec<_>>()
                )
            },
            rule: "the consequence clause (internally invented slots never capture a user slot): a reachable e-graph, then patterns and multi-patterns whose slots are spelled with the names of parameter slots of existing classes ($f<n>, parsed after the e-graph was populated, so that user slot and internal slot coincide); every reported match must be total and its instance represented, multi-pattern equations must hold; judged only if the same case passes with ordinary slot names; non-trivial = at least one match on an e-graph with an effective union; distinct by rendered case",
            case_timeout_s: tier.pick(30, 120),
            exhaustive: false,
        }));
    }
    Property {
        id: "C17", scale: tier.pick(2, 1),
        stages,
        assumptions: vec!["names whose digits denote a number >= 2^30 are outside the property's domain (the encoding overflows)".into()],
    }
}
