//! C04 — every represented instance of a rule's left side fires.
use crate::egx::*;
use crate::engine::*;
use crate::langs::*;
use crate::pat::*;
use crate::tm::*;
use proptest::prelude::*;
use serde::{Deserialize, Serialize};
use slotted_egraphs::*;
use std::collections::{BTreeMap, BTreeSet};

#[derive(Clone, Debug, PartialEq, Eq, Hash, Serialize, Deserialize)]
pub struct PlantCase {
    pub lang: LangId,
    /// left and right pattern (model patterns; pattern-bound slots are names >= 20, free pattern slots 10..14)
    pub lhs: Tm,
    pub rhs: Tm,
    /// the planted instance t = L sigma rho, and the expected R sigma rho
    pub inst_l: Tm,
    pub inst_r: Tm,
    /// the term actually inserted: a context around the instance, possibly with a subterm replaced by an equal one
    pub inserted: Tm,
    /// balanced pre-unions (both sides are inserted, then united)
    pub pre_unions: Vec<(Tm, Tm)>,
    /// a second rule applied in the same apply_rewrites call (must not disturb the first: searchers run before appliers)
    pub second_rule: Option<(Tm, Tm)>,
    /// further right-side instances that must be represented and equal to the planted instance afterwards: the planted term is an
    /// instance of the left side in another way too (a symmetric leaf of the pattern matched in its other orientation)
    #[serde(default)]
    pub also_r: Vec<Tm>,
}

const FREE_PAT: [Name; 3] = [10, 11, 12]; // $k $l $m
const VAR_OP: &str = "v";

fn var_op(lang: LangId) -> &'static str {
    match lang {
        LangId::Core => "v",
        _ => "var",
    }
}

/// left pattern: nodes of the language; leaves are pattern variables or leaf operators; every binder binds a new name (20, 21, ..)
fn gen_lhs(sig: &LangSig, src: &mut Src, depth: usize, next_bound: &mut Name, scope: &mut Vec<Name>, root: bool) -> Tm {
    let vars = ["a", "b", "c"];
    if !root && (depth >= 3 || src.pick(3) == 0) {
        return pvar(vars[src.pick(vars.len())]);
    }
    let ops: Vec<&OpSig> = sig.ops.iter().filter(|o| !["g4", "g5", "g6", "h3", "h4"].contains(&o.name)).collect();
    let inner: Vec<&OpSig> = ops.iter().copied().filter(|o| !o.is_leaf()).collect();
    let o = if root || src.pick(4) != 0 { inner[src.pick(inner.len())] } else { ops[src.pick(ops.len())] };
    let mut args = Vec::new();
    for f in &o.fields {
        match f {
            Field::Slot => {
                // a free pattern slot or a bound one in scope
                let mut cands: Vec<Name> = FREE_PAT.to_vec();
                cands.extend(scope.iter().copied());
                args.push(Arg::S(cands[src.pick(cands.len())]));
            }
            Field::PayU32 => args.push(Arg::P(format!("{}", src.pick(3)))),
            Field::PaySym => args.push(Arg::P("s".into())),
            Field::PayOther(v) => args.push(Arg::P(v[0].to_string())),
            Field::Kid(nb) => {
                let mut bs = Vec::new();
                for _ in 0..*nb {
                    bs.push(*next_bound);
                    *next_bound += 1;
                }
                let l = scope.len();
                scope.extend(bs.iter().copied());
                let k = gen_lhs(sig, src, depth + 1, next_bound, scope, false);
                scope.truncate(l);
                args.push(Arg::K(bs, k));
            }
        }
    }
    Tm { op: o.name.to_string(), args }
}

/// right pattern over the variables and free slots of the left pattern; a variable with a non-empty
/// scope is only used under binders for exactly those names
fn gen_rhs(lang: LangId, sig: &LangSig, src: &mut Src, depth: usize, scopes: &BTreeMap<String, BTreeSet<Name>>, free: &[Name]) -> Tm {
    let vars: Vec<&String> = scopes.keys().collect();
    let pick_var = |src: &mut Src| -> Option<Tm> {
        if vars.is_empty() {
            return None;
        }
        let v = vars[src.pick(vars.len())];
        let sc: Vec<Name> = scopes[v].iter().copied().collect();
        Some(match sc.len() {
            0 => pvar(v),
            1 => match lang {
                LangId::Core | LangId::Lambda => Tm::node("lam", vec![Arg::K(sc.clone(), pvar(v))]),
                LangId::Sdql => Tm::node("lambda", vec![Arg::K(sc.clone(), pvar(v))]),
                _ => pvar(v),
            },
            2 => match lang {
                LangId::Core => Tm::node("sum2", vec![Arg::K(vec![], Tm::node("c0", vec![])), Arg::K(sc.clone(), pvar(v))]),
                LangId::Sdql => Tm::node("sum", vec![Arg::K(vec![], Tm::node("var", vec![Arg::S(free.first().copied().unwrap_or(10))])), Arg::K(sc.clone(), pvar(v))]),
                _ => Tm::node("lam", vec![Arg::K(vec![sc[0]], Tm::node("lam", vec![Arg::K(vec![sc[1]], pvar(v))]))]),
            },
            _ => {
                // wrap in nested lam binders
                let mut t = pvar(v);
                for n in sc.iter().rev() {
                    t = Tm::node(if lang == LangId::Sdql { "lambda" } else { "lam" }, vec![Arg::K(vec![*n], t)]);
                }
                t
            }
        })
    };
    if depth >= 2 || src.pick(3) == 0 {
        if let Some(t) = pick_var(src) {
            return t;
        }
        if depth >= 2 {
            // no pattern variables at all: a closed leaf
            return small_term(lang, &[], src);
        }
    }
    // a node without binders whose children are right patterns; slots from the free slots of the left side
    let ops: Vec<&OpSig> = sig.ops.iter().filter(|o| !o.fields.iter().any(|f| matches!(f, Field::Kid(n) if *n > 0)) && !["g4", "g5", "g6", "h3", "h4"].contains(&o.name)).collect();
    let usable: Vec<&OpSig> = ops.into_iter().filter(|o| !o.fields.iter().any(|f| matches!(f, Field::Slot)) || !free.is_empty()).collect();
    let o = usable[src.pick(usable.len())];
    let mut args = Vec::new();
    for f in &o.fields {
        match f {
            Field::Slot => args.push(Arg::S(free[src.pick(free.len())])),
            Field::PayU32 => args.push(Arg::P(format!("{}", src.pick(3)))),
            Field::PaySym => args.push(Arg::P("s".into())),
            Field::PayOther(v) => args.push(Arg::P(v[0].to_string())),
            Field::Kid(_) => args.push(Arg::K(vec![], gen_rhs(lang, sig, src, depth + 1, scopes, free))),
        }
    }
    Tm { op: o.name.to_string(), args }
}

fn small_term(lang: LangId, names: &[Name], src: &mut Src) -> Tm {
    let vo = var_op(lang);
    let leaf = |n: Name| Tm::leaf(vo, &[n]);
    let pickn = |src: &mut Src| names[src.pick(names.len())];
    let k = |t: Tm| Arg::K(vec![], t);
    match lang {
        LangId::Core => match src.pick(6) {
            0 => Tm::node("c0", vec![]),
            1 if !names.is_empty() => leaf(pickn(src)),
            2 | 5 if names.len() >= 2 => Tm::leaf("f2", &[names[0], names[1]]),
            3 if !names.is_empty() => Tm::node("w", vec![k(leaf(pickn(src)))]),
            4 if !names.is_empty() => Tm::node("p", vec![k(leaf(pickn(src))), k(Tm::node("c1", vec![]))]),
            _ => Tm::node("c1", vec![]),
        },
        LangId::Sdql => {
            if names.is_empty() {
                Tm::node("lambda", vec![Arg::K(vec![60], leaf(60))])
            } else if src.pick(2) == 0 {
                leaf(pickn(src))
            } else {
                Tm::node("sing", vec![k(leaf(pickn(src))), k(leaf(pickn(src)))])
            }
        }
        _ => {
            if names.is_empty() {
                Tm::node("lam", vec![Arg::K(vec![60], leaf(60))])
            } else if src.pick(2) == 0 {
                leaf(pickn(src))
            } else {
                Tm::node("app", vec![k(leaf(pickn(src))), k(leaf(pickn(src)))])
            }
        }
    }
}

fn decode(lang: LangId, ch: &[u16]) -> Option<PlantCase> {
    let sig = lang.sig();
    let mut src = Src::new(ch);
    let mut next_bound: Name = 20;
    let lhs = gen_lhs(&sig, &mut src, 0, &mut next_bound, &mut Vec::new(), true);
    let scopes = pvars_scopes(&lhs);
    let free_l: Vec<Name> = pat_free_slots(&lhs).into_iter().collect();
    let rhs = gen_rhs(lang, &sig, &mut src, 0, &scopes, &free_l);
    // sigma: variables -> small terms over new names (0..3) and the bound names in scope at all occurrences
    let mut sigma = BTreeMap::new();
    for (v, sc) in &scopes {
        let mut names: Vec<Name> = Vec::new();
        let n_new = src.pick(3);
        for i in 0..n_new {
            names.push(i as Name);
        }
        names.extend(sc.iter().copied());
        sigma.insert(v.clone(), small_term(lang, &names, &mut src));
    }
    // rho: injective renaming of the free pattern slots to concrete names 4..8 (disjoint from sigma's new names)
    let mut targets: Vec<Name> = vec![4, 5, 6, 7, 8];
    let mut rho = BTreeMap::new();
    for f in &free_l {
        rho.insert(*f, targets.remove(src.pick(targets.len())));
    }
    let mut fresh: Name = 120;
    let mut inst_l = instantiate(&lhs, &sigma, &rho, VAR_OP, &mut fresh).ok()?;
    let mut inst_r = instantiate(&rhs, &sigma, &rho, VAR_OP, &mut fresh).ok()?;
    // context
    let k = |t: Tm| Arg::K(vec![], t);
    let in_ctx = |t: Tm, src: &mut Src| -> Tm {
        match (lang, src.pick(4)) {
            (_, 0) => t,
            (LangId::Core, 1) => Tm::node("w", vec![k(t)]),
            (LangId::Core, 2) => Tm::node("p", vec![k(t), k(Tm::node("c1", vec![]))]),
            (LangId::Core, _) => Tm::node("lam", vec![Arg::K(vec![src.pick(9) as Name], t)]),
            (LangId::Sdql, 1) => Tm::node("sing", vec![k(t.clone()), k(t)]),
            (LangId::Sdql, _) => Tm::node("lambda", vec![Arg::K(vec![src.pick(9) as Name], t)]),
            (_, 1) => Tm::node("app", vec![k(t), k(Tm::node("lam", vec![Arg::K(vec![61], Tm::leaf(var_op(lang), &[61]))]))]),
            (_, _) => Tm::node("lam", vec![Arg::K(vec![src.pick(9) as Name], t)]),
        }
    };
    // balanced pre-union: a proper subterm s of the instance is replaced by s' with the same free names
    let mut pre_unions = Vec::new();
    let mut planted = inst_l.clone();
    if src.pick(2) == 0 {
        let subs = inst_l.subterms();
        if subs.len() > 1 {
            let i = 1 + src.pick(subs.len() - 1);
            let s = subs[i].clone();
            // only subterms that do not mention names bound above them (then s can be inserted on its own with the same meaning)
            let bound_above: BTreeSet<Name> = pat_bound_slots(&inst_l).into_iter().collect();
            if s.fv().iter().all(|n| !bound_above.contains(n)) {
                let fv: Vec<Name> = s.fv().into_iter().collect();
                let s2 = match (lang, fv.len()) {
                    (LangId::Core, 0) => Tm::node("w", vec![k(Tm::node("c1", vec![]))]),
                    (LangId::Core, 1) => Tm::node("w", vec![k(Tm::leaf("v", &fv))]),
                    (LangId::Core, 2) => Tm::leaf("f2", &[fv[1], fv[0]]),
                    (LangId::Core, 3) => Tm::leaf("g3", &[fv[2], fv[0], fv[1]]),
                    _ => Tm::node(if lang == LangId::Core { "w" } else if lang == LangId::Sdql { "lambda" } else { "lam" }, if lang == LangId::Core { vec![k(s.clone())] } else { vec![Arg::K(vec![62], s.clone())] }),
                };
                if s2.fv() == s.fv() && s2 != s {
                    planted = replace_nth(&inst_l, i, &s2);
                    pre_unions.push((s2, s));
                }
            }
        }
    }
    // symmetric child: make a two-slot leaf symmetric beforehand (Core only)
    let mut also_r: Vec<Tm> = Vec::new();
    if lang == LangId::Core && src.pick(3) == 0 {
        pre_unions.push((Tm::leaf("f2", &[0, 1]), Tm::leaf("f2", &[1, 0])));
        // the left side itself may contain an f2 leaf over two free pattern slots that occur nowhere else in it: with f2
        // symmetric the planted term is an instance under the renaming with those two slots exchanged as well, and that
        // instance has to fire too (its right side differs when the right pattern uses the two slots asymmetrically)
        for st in lhs.subterms() {
            if st.op == "f2" {
                if let (Some(Arg::S(k)), Some(Arg::S(l))) = (st.args.first(), st.args.get(1)) {
                    let count = |x: Name| lhs.subterms().iter().map(|u| u.args.iter().filter(|a| matches!(a, Arg::S(y) if *y == x)).count() + u.args.iter().filter(|a| matches!(a, Arg::K(bs, _) if bs.contains(&x))).count()).sum::<usize>();
                    if k != l && rho.contains_key(k) && rho.contains_key(l) && count(*k) == 1 && count(*l) == 1 {
                        let mut rho2 = rho.clone();
                        rho2.insert(*k, rho[l]);
                        rho2.insert(*l, rho[k]);
                        // so that the two orientations are really different instances (and the planted term is not simply
                        // symmetric in the two names), the term of one pattern variable mentions the name the slot $k stands for
                        let mut sigma2 = sigma.clone();
                        if pre_unions.len() == 1 {
                            let target = rho[k];
                            let cand: Vec<String> = sigma.iter().filter(|(_, t)| t.fv().contains(&0) && !t.fv().contains(&target)).map(|(v, _)| v.clone()).collect();
                            if !cand.is_empty() {
                                let v = cand[src.pick(cand.len())].clone();
                                let m: BTreeMap<Name, Name> = [(0 as Name, target)].into_iter().collect();
                                sigma2.insert(v.clone(), rename_free_simple(&sigma[&v], &m));
                                let mut f3: Name = 140;
                                if let (Ok(l2), Ok(r2)) = (instantiate(&lhs, &sigma2, &rho, VAR_OP, &mut f3), instantiate(&rhs, &sigma2, &rho, VAR_OP, &mut f3)) {
                                    inst_l = l2;
                                    inst_r = r2;
                                    planted = inst_l.clone();
                                } else {
                                    sigma2 = sigma.clone();
                                }
                            }
                        }
                        let mut fresh2: Name = 160;
                        if let Ok(r2) = instantiate(&rhs, &sigma2, &rho2, VAR_OP, &mut fresh2) {
                            if r2 != inst_r {
                                also_r.push(r2);
                            }
                        }
                        break;
                    }
                }
            }
        }
        // a repeated variable whose occurrences are equal only through that symmetry: the second occurrence of an
        // f2 leaf in the instance gets its arguments swapped (the matcher has to compare the two occurrences semantically)
        let subs = planted.subterms();
        let mut seen: Vec<&Tm> = Vec::new();
        let mut swap_at: Option<usize> = None;
        for (i, st) in subs.iter().enumerate() {
            if st.op == "f2" {
                if let (Some(Arg::S(a)), Some(Arg::S(b))) = (st.args.first(), st.args.get(1)) {
                    if a != b && seen.contains(st) {
                        swap_at = Some(i);
                        break;
                    }
                }
                seen.push(*st);
            }
        }
        if let Some(i) = swap_at {
            let st = subs[i].clone();
            if let (Arg::S(a), Arg::S(b)) = (&st.args[0], &st.args[1]) {
                let sw = Tm::leaf("f2", &[*b, *a]);
                // only outside binders that bind one of the two names (then the swap is a plain renaming inside the node)
                planted = replace_nth(&planted, i, &sw);
            }
        }
    }
    // symmetry acquired through a merge, after the instance was planted: another class with the same slots is made
    // symmetric and then united with a leaf of the instance (the leaf's class inherits the symmetry); the planted
    // leaf may have its arguments swapped, so that the instance is present only through the inherited symmetry
    if lang == LangId::Core && src.pick(3) == 0 {
        let subs = planted.subterms();
        let cand: Vec<usize> = subs
            .iter()
            .enumerate()
            .filter(|(_, st)| (st.op == "f2" || st.op == "g3") && st.fv().len() == st.args.len())
            .map(|(i, _)| i)
            .collect();
        if !cand.is_empty() {
            let i = cand[src.pick(cand.len())];
            let leaf = subs[i].clone();
            let names: Vec<Name> = leaf.args.iter().filter_map(|a| if let Arg::S(n) = a { Some(*n) } else { None }).collect();
            let mut swapped = names.clone();
            swapped.swap(0, 1);
            let other = |ns: &[Name]| -> Tm {
                if ns.len() == 2 {
                    Tm::node("p", vec![k(Tm::leaf("v", &[ns[0]])), k(Tm::leaf("v", &[ns[1]]))])
                } else {
                    Tm::leaf("h3", ns)
                }
            };
            pre_unions.push((other(&names), other(&swapped)));
            if src.pick(2) == 0 {
                pre_unions.push((other(&names), leaf.clone()));
            } else {
                pre_unions.push((leaf.clone(), other(&names)));
            }
            if src.pick(2) == 0 {
                planted = replace_nth(&planted, i, &Tm::leaf(&leaf.op, &swapped));
            }
        }
    }
    let inserted = in_ctx(planted, &mut src);
    let second_rule = if src.pick(3) == 0 {
        let mut nb: Name = 30;
        let l2 = gen_lhs(&sig, &mut src, 0, &mut nb, &mut Vec::new(), true);
        let sc2 = pvars_scopes(&l2);
        let f2: Vec<Name> = pat_free_slots(&l2).into_iter().collect();
        let r2 = gen_rhs(lang, &sig, &mut src, 0, &sc2, &f2);
        Some((l2, r2))
    } else {
        None
    };
    Some(PlantCase { lang, lhs, rhs, inst_l, inst_r, inserted, pre_unions, second_rule, also_r })
}

fn run(c: &PlantCase, obs: &mut Obs) -> Result<(), String> {
    crate::with_lang!(c.lang, L => run_l::<L>(c, obs))
}

fn run_l<L: Language + 'static>(c: &PlantCase, obs: &mut Obs) -> Result<(), String> {
    let nm = Naming::Alpha;
    let mut eg: EGraph<L> = EGraph::default();
    eg.add_expr(parse_tm::<L>(&c.inserted, &nm));
    for (a, b) in &c.pre_unions {
        let ia = eg.add_expr(parse_tm::<L>(a, &nm));
        let ib = eg.add_expr(parse_tm::<L>(b, &nm));
        eg.union(&ia, &ib);
    }
    // scope: no class has a redundant slot (documented limitation of the matcher)
    for i in eg.ids() {
        let cs = eg.slots(i);
        for n in eg.enodes(i) {
            if n.slots().len() != cs.len() {
                obs.label("out-of-scope-redundant-slot");
                return Ok(());
            }
        }
    }
    // the instance must be represented beforehand (possibly only up to equality)
    // (by construction it is: the inserted term is the instance with subterms replaced by terms they were united with, or
    // with the arguments of a leaf permuted by a symmetry asserted through the pre-unions)
    let Some(before) = lookup_tm::<L, ()>(&eg, &c.inst_l, &nm) else {
        return Err(format!(
            "the instance {} is represented through the unions {:?} of subterms of the inserted term {}, but it cannot be looked up before rewriting: its firing cannot be observed",
            c.inst_l.render(&nm),
            c.pre_unions.iter().map(|(a, b)| format!("{} = {}", a.render(&nm), b.render(&nm))).collect::<Vec<_>>(),
            c.inserted.render(&nm)
        ));
    };
    let mut rules: Vec<Rewrite<L, ()>> = vec![Rewrite::new("planted", &render_pat(&c.lhs, &nm), &render_pat(&c.rhs, &nm))];
    if let Some((l2, r2)) = &c.second_rule {
        rules.insert(0, Rewrite::new("second", &render_pat(l2, &nm), &render_pat(r2, &nm)));
    }
    apply_rewrites(&mut eg, &rules);
    obs.cmp(2);
    let Some(r) = lookup_tm::<L, ()>(&eg, &c.inst_r, &nm) else {
        return Err(format!(
            "rule {} => {}: the instance {} was represented, but after one apply_rewrites the right-side instance {} is not represented",
            render_pat(&c.lhs, &nm),
            render_pat(&c.rhs, &nm),
            c.inst_l.render(&nm),
            c.inst_r.render(&nm)
        ));
    };
    let l = lookup_tm::<L, ()>(&eg, &c.inst_l, &nm).ok_or("the instance is no longer represented after rewriting")?;
    if !eg.eq(&l, &r) {
        return Err(format!(
            "rule {} => {}: after one apply_rewrites the instance {} and the right-side instance {} are not equal",
            render_pat(&c.lhs, &nm),
            render_pat(&c.rhs, &nm),
            c.inst_l.render(&nm),
            c.inst_r.render(&nm)
        ));
    }
    for r2 in &c.also_r {
        obs.cmp(1);
        let Some(r) = lookup_tm::<L, ()>(&eg, r2, &nm) else {
            return Err(format!(
                "rule {} => {}: with f2 symmetric the instance {} matches the left side in both orientations of its f2 leaf, but the right-side instance of the other orientation, {}, is not represented after one apply_rewrites",
                render_pat(&c.lhs, &nm),
                render_pat(&c.rhs, &nm),
                c.inst_l.render(&nm),
                r2.render(&nm)
            ));
        };
        if !eg.eq(&l, &r) {
            return Err(format!("rule {} => {}: the right-side instance {} of the other orientation is not equal to the instance {}", render_pat(&c.lhs, &nm), render_pat(&c.rhs, &nm), r2.render(&nm), c.inst_l.render(&nm)));
        }
        obs.label("both-orientations-of-a-symmetric-leaf-must-fire");
    }
    let _ = before;
    let vars: Vec<String> = c.lhs.subterms().iter().filter(|s| is_pvar(s)).map(|s| pvar_name(s).to_string()).collect();
    let repeated = vars.iter().collect::<BTreeSet<_>>().len() != vars.len();
    let binder = !pat_bound_slots(&c.lhs).is_empty();
    if repeated {
        obs.label("repeated-variable");
    }
    if binder {
        obs.label("binder-in-pattern");
    }
    if !c.pre_unions.is_empty() {
        obs.label("pre-union");
    }
    if c.inst_l != c.inserted && !c.pre_unions.is_empty() {
        obs.label("present-only-up-to-equality");
    }
    if c.pre_unions.iter().any(|(a, b)| a.op == b.op && a != b && (a.op == "h3" || a.op == "p")) {
        obs.label("symmetry-acquired-by-merge");
    }
    if c.second_rule.is_some() {
        obs.label("two-rules");
    }
    obs.nontrivial = repeated || binder || !c.pre_unions.is_empty();
    Ok(())
}


// ---------------------------------------------------------------------------------------------
// non-linear / permuted left sides over a symmetric multi-slot class
// ---------------------------------------------------------------------------------------------

/// A k-slot leaf L whose class is made symmetric under the group generated by `gens` (asserted as unions with permuted
/// copies), optionally merged with the (bigger) class of another k-slot term, optionally with a generator asserted only
/// after that merge.  The inserted term uses L twice, the second time with its arguments permuted by `pi`, an element of
/// the generated group: so the inserted term is an instance of the non-linear left side - through the symmetry only.
#[derive(Clone, Debug, PartialEq, Eq, Hash, Serialize, Deserialize)]
pub struct SymPlant {
    pub k: u8,
    pub gens: Vec<Vec<u8>>,
    pub pi: Vec<u8>,
    /// 0: (p ?a ?a) => (w ?a); 1: (t3 ?a ?b ?a) => (p ?a ?b); 2: (p (w ?a) ?a) => (w (w ?a)); 3: (p (L s..) (L pi(s)..)) => (w (L s..)) on (p L L)
    pub kind: u8,
    /// 0: no merge; 1: L's class merged into a bigger class; 2: a bigger L class absorbs another one
    pub merge: u8,
    /// the last generator is asserted after the merge
    pub late_gen: bool,
    /// the term is inserted before the symmetries are asserted (it then has to be re-canonicalised)
    pub insert_first: bool,
    /// with a merge: the generators are asserted on the *other* class (the leaf h), so that L's class learns them only
    /// through the merge
    #[serde(default)]
    pub gens_on_other: bool,
}

fn sym_leaf(k: usize, p: &[u8]) -> Tm {
    super::c10::leaf_term(k, &p.to_vec())
}

fn run_sym(c: &SymPlant, obs: &mut Obs) -> Result<(), String> {
    let nm = Naming::Alpha;
    let k = c.k as usize;
    let id: Vec<u8> = (0..k as u8).collect();
    let kk = |t: Tm| Arg::K(vec![], t);
    let l_id = sym_leaf(k, &id);
    let l_pi = sym_leaf(k, &c.pi);
    // pattern slots: $k $l $m ... (names 10..)
    let pslots: Vec<u8> = (10..10 + k as u8).collect();
    let pslots_pi: Vec<u8> = c.pi.iter().map(|x| 10 + *x).collect();
    let (lhs, rhs, inserted, inst_r): (Tm, Tm, Tm, Tm) = match c.kind % 6 {
        0 => (Tm::node("p", vec![kk(pvar("a")), kk(pvar("a"))]), Tm::node("w", vec![kk(pvar("a"))]), Tm::node("p", vec![kk(l_id.clone()), kk(l_pi.clone())]), Tm::node("w", vec![kk(l_id.clone())])),
        1 => (
            Tm::node("t3", vec![kk(pvar("a")), kk(pvar("b")), kk(pvar("a"))]),
            Tm::node("p", vec![kk(pvar("a")), kk(pvar("b"))]),
            Tm::node("t3", vec![kk(l_id.clone()), kk(Tm::node("c1", vec![])), kk(l_pi.clone())]),
            Tm::node("p", vec![kk(l_id.clone()), kk(Tm::node("c1", vec![]))]),
        ),
        2 => (
            Tm::node("p", vec![kk(Tm::node("w", vec![kk(pvar("a"))])), kk(pvar("a"))]),
            Tm::node("w", vec![kk(Tm::node("w", vec![kk(pvar("a"))]))]),
            Tm::node("p", vec![kk(Tm::node("w", vec![kk(l_pi.clone())])), kk(l_id.clone())]),
            Tm::node("w", vec![kk(Tm::node("w", vec![kk(l_id.clone())]))]),
        ),
        4 => (
            // the leaf two levels below a node that anchors one of its slots: the classes in between have to inherit the symmetry
            Tm::node("q2", vec![Arg::S(10), kk(Tm::node("w", vec![kk(sym_leaf(k, &pslots_pi))]))]),
            Tm::node("w", vec![kk(sym_leaf(k, &pslots))]),
            Tm::node("q2", vec![Arg::S(0), kk(Tm::node("w", vec![kk(l_id.clone())]))]),
            Tm::node("w", vec![kk(l_id.clone())]),
        ),
        5 => (
            Tm::node("p", vec![kk(Tm::leaf("v", &[10])), kk(Tm::node("w", vec![kk(Tm::node("w", vec![kk(sym_leaf(k, &pslots_pi))]))]))]),
            Tm::node("w", vec![kk(sym_leaf(k, &pslots))]),
            Tm::node("p", vec![kk(Tm::leaf("v", &[0])), kk(Tm::node("w", vec![kk(Tm::node("w", vec![kk(l_id.clone())]))]))]),
            Tm::node("w", vec![kk(l_id.clone())]),
        ),
        _ => (
            Tm::node("p", vec![kk(sym_leaf(k, &pslots)), kk(sym_leaf(k, &pslots_pi))]),
            Tm::node("w", vec![kk(sym_leaf(k, &pslots))]),
            Tm::node("p", vec![kk(l_id.clone()), kk(l_id.clone())]),
            Tm::node("w", vec![kk(l_id.clone())]),
        ),
    };
    let mut eg: EGraph<Core> = EGraph::default();
    let add = |eg: &mut EGraph<Core>, t: &Tm| eg.add_expr(parse_tm::<Core>(t, &nm));
    if c.insert_first {
        add(&mut eg, &inserted);
    }
    let base = add(&mut eg, &l_id);
    let n_early = if c.late_gen && c.merge != 0 && !c.gens.is_empty() { c.gens.len() - 1 } else { c.gens.len() };
    let on_other = c.gens_on_other && c.merge != 0 && (k == 3 || k == 4);
    let other_leaf = |p: &[u8]| Tm::leaf(if k == 3 { "h3" } else { "h4" }, &p.iter().map(|x| *x as Name).collect::<Vec<_>>());
    for g in &c.gens[..n_early] {
        if on_other {
            let a = add(&mut eg, &other_leaf(&id));
            let b = add(&mut eg, &other_leaf(g));
            eg.union(&a, &b);
        } else {
            let b = add(&mut eg, &sym_leaf(k, g));
            eg.union(&base, &b);
        }
    }
    if c.merge != 0 && (k == 3 || k == 4) {
        let names: Vec<Name> = id.iter().map(|x| *x as Name).collect();
        let h = Tm::leaf(if k == 3 { "h3" } else { "h4" }, &names);
        let f2 = |a: Name, b: Name| Tm::leaf("f2", &[a, b]);
        let v = |a: Name| Tm::leaf("v", &[a]);
        let extra: Vec<Tm> = if k == 3 { vec![Tm::node("p", vec![kk(f2(0, 1)), kk(v(2))]), Tm::node("p", vec![kk(v(0)), kk(f2(1, 2))])] } else { vec![Tm::node("p", vec![kk(f2(0, 1)), kk(f2(2, 3))]), Tm::node("p", vec![kk(f2(0, 2)), kk(f2(1, 3))])] };
        let hi = add(&mut eg, &h);
        for e in &extra {
            let ei = add(&mut eg, e);
            if c.merge == 1 {
                eg.union(&hi, &ei);
            } else {
                eg.union(&base, &ei);
            }
        }
        eg.union(&base, &hi);
    }
    for g in &c.gens[n_early..] {
        let b = add(&mut eg, &sym_leaf(k, g));
        eg.union(&base, &b);
    }
    if !c.insert_first {
        add(&mut eg, &inserted);
    }
    let rule: Rewrite<Core, ()> = Rewrite::new("planted", &render_pat(&lhs, &nm), &render_pat(&rhs, &nm));
    apply_rewrites(&mut eg, &[rule]);
    obs.cmp(2);
    let describe = || format!("rule {} => {} on {} (a {}-slot leaf symmetric under {:?}, second use permuted by {:?} which is in the generated group)", render_pat(&lhs, &nm), render_pat(&rhs, &nm), inserted.render(&nm), k, c.gens, c.pi);
    let Some(r) = lookup_tm::<Core, ()>(&eg, &inst_r, &nm) else {
        return Err(format!("{}: after one apply_rewrites the right-side instance {} is not represented", describe(), inst_r.render(&nm)));
    };
    let l = lookup_tm::<Core, ()>(&eg, &inserted, &nm).ok_or("the inserted term is no longer represented")?;
    if !eg.eq(&l, &r) {
        return Err(format!("{}: after one apply_rewrites the inserted term and the right-side instance {} are not equal", describe(), inst_r.render(&nm)));
    }
    let order = super::c10::closure(k, &c.gens).len();
    if c.merge != 0 {
        obs.label("symmetric-class-merged");
    }
    if c.gens.len() >= 2 {
        obs.label("two-or-more-generators");
    }
    if on_other {
        obs.label("symmetry-only-through-the-merge");
    }
    if c.kind % 6 >= 4 {
        obs.label("leaf-two-levels-below-an-anchor");
    } else if c.kind % 6 == 3 {
        obs.label("permuted-leaf-pattern");
    } else {
        obs.label("repeated-variable");
    }
    obs.nontrivial = order > 1 && c.pi != id;
    Ok(())
}

fn sym_strategy() -> BoxedStrategy<SymPlant> {
    (proptest::collection::vec(any::<u16>(), 0..60), any::<u8>(), any::<u8>(), any::<bool>(), any::<bool>(), any::<bool>())
        .prop_map(|(ch, kind, merge, late_gen, insert_first, gens_on_other)| {
            let mut src = Src::new(&ch);
            // mostly 3 and 4 slots; 5 slots (up to 120 group elements to enumerate per match attempt) in one case of eight
            let k = if src.pick(8) == 0 { 5 } else { 3 + src.pick(2) };
            let n = 1 + src.pick(3);
            let gens: Vec<Vec<u8>> = (0..n).map(|_| super::c10::structured_perm(k, &mut src)).collect();
            // pi: a random element of the generated group (uniform over the closure)
            let mut gens = gens;
            // the matcher enumerates |G|^2 argument arrangements of a node that uses the class twice: keep 5-slot groups small
            while k == 5 && super::c10::closure(k, &gens).len() > 12 && gens.len() > 1 {
                gens.pop();
            }
            if k == 5 && super::c10::closure(k, &gens).len() > 12 {
                gens = vec![vec![1, 0, 3, 2, 4]];
            }
            let cl: Vec<Vec<u8>> = super::c10::closure(k, &gens).into_iter().collect();
            let pi = cl[src.pick(cl.len())].clone();
            SymPlant { k: k as u8, gens, pi, kind: kind % 6, merge: merge % 3, late_gen, insert_first, gens_on_other }
        })
        .boxed()
}

fn strategy(lang: LangId) -> BoxedStrategy<PlantCase> {
    proptest::collection::vec(any::<u16>(), 0..120).prop_filter_map("decodable", move |ch| decode(lang, &ch)).boxed()
}

pub fn property(tier: Tier) -> Property {
    let mut stages: Vec<Box<dyn DynStage>> = Vec::new();
    for (name, lang, q, t) in [("plant-core", LangId::Core, 8000u32, 160_000u32), ("plant-lambda", LangId::Lambda, 3000, 60_000), ("plant-sdql", LangId::Sdql, 2000, 40_000)] {
        stages.push(Box::new(Stage {
            name,
            source: random(move || strategy(lang), tier.pick(q, t)),
            run,
            panic_is_violation: false,
            render: |c: &PlantCase| {
                let nm = Naming::Alpha;
                format!(
                    "[{:?}] rule {} => {}; instance {} expected {}; inserted {}; pre-unions {:?}; second rule {:?}",
                    c.lang,
                    render_pat(&c.lhs, &nm),
                    render_pat(&c.rhs, &nm),
                    c.inst_l.render(&nm),
                    c.inst_r.render(&nm),
                    c.inserted.render(&nm),
                    c.pre_unions.iter().map(|(a, b)| format!("{} = {}", a.render(&nm), b.render(&nm))).collect::<Vec<_>>(),
                    c.second_rule.as_ref().map(|(l, r)| format!("{} => {}", render_pat(l, &nm), render_pat(r, &nm)))
                )
            },
            rule: "a left pattern (depth <= 3, repeated variables, free slots, every binder binds a new name), a right pattern over its variables and free slots, a substitution of small terms (new names and bound names in scope) and an injective renaming of the pattern's free slots give the planted instance; it is inserted inside a context, in half of the cases with a subterm replaced by a term of the same free names that is united with it afterwards, optionally next to a symmetric leaf and a second rule; cases in which some class has a redundant slot are counted out of scope; non-trivial = repeated variable, binder, or pre-union; distinct by rendered case",
            case_timeout_s: tier.pick(30, 120),
            exhaustive: false,
        }));
    }
    stages.push(Box::new(Stage {
        name: "plant-symmetric-class",
        source: random(sym_strategy, tier.pick(3000, 60_000)),
        run: run_sym,
        panic_is_violation: false,
        render: |c: &SymPlant| format!("{:?}", c),
        rule: "a 3-5 slot leaf made symmetric under a group generated by 1-3 permutations (asserted as unions with permuted copies; optionally the class is then merged with another class in either direction, optionally one generator is asserted only after the merge), used twice in the inserted term, the second time permuted by a random element of the generated group; left sides (p ?a ?a), (t3 ?a ?b ?a), (p (w ?a) ?a), the leaf written out twice with permuted pattern slots, or the permuted leaf two / three levels below a node that anchors one of its slots (the generators optionally asserted on the other class, so that the leaf's class and the classes above it learn the symmetry only through the merge); the right-side instance must be represented and equal to the inserted term after one apply_rewrites; non-trivial = the group is non-trivial and the second use is really permuted; distinct by case",
        case_timeout_s: tier.pick(30, 120),
        exhaustive: false,
    }));
    Property { id: "C04", scale: tier.pick(5, 2), stages, assumptions: vec!["scope as stated by the property: bound names bound once and not free; no class with a redundant slot (checked per case, counted)".into()] }
}
