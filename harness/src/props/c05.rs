//! C05 — reported matches denote terms that are really in the e-graph.
use super::c15::lookup_pattern;
use crate::engine::*;
use crate::fp::*;
use crate::langs::*;
use crate::mixed::*;
use crate::pat::*;
use crate::tm::*;
use proptest::prelude::*;
use serde::{Deserialize, Serialize};
use slotted_egraphs::*;
use std::collections::BTreeSet;

#[derive(Clone, Debug, PartialEq, Eq, Hash, Serialize, Deserialize)]
pub struct MatchCase {
    pub base: Mixed,
    /// model patterns (op "?" = variable), rendered with Alpha naming
    pub pats: Vec<Tm>,
    /// multi-patterns: equations (var, node whose children are variables)
    pub multi: Vec<Vec<(String, Tm)>>,
    /// how the slots of the patterns are spelled: 0 = like the terms ($a, $b, ..); 1 = with the names of parameter slots of
    /// classes that exist in the e-graph when the pattern is parsed ($f<n>: the user happens to choose names the library
    /// invented - C17's "never capture a user slot"); 2 = $f0, $f1, ..; 3 = numeric
    #[serde(default)]
    pub pat_naming: u8,
}

/// the naming of pattern slots for a case (see `MatchCase::pat_naming`)
pub fn pattern_naming<L: Language, N: Analysis<L>>(eg: &EGraph<L, N>, kind: u8) -> Naming {
    match kind {
        1 => {
            let mut names: Vec<String> = Vec::new();
            for i in eg.ids() {
                for s in eg.slots(i) {
                    let n = s.to_string()[1..].to_string();
                    if !names.contains(&n) {
                        names.push(n);
                    }
                }
            }
            names.sort();
            // model names are small numbers (alphabet, binder names up to ~50): fill up with textual names
            let mut k = 0;
            while names.len() < 256 {
                names.push(format!("pn{}", k));
                k += 1;
            }
            Naming::Table(names)
        }
        2 => Naming::FreshLike,
        3 => Naming::Numeric,
        _ => Naming::Alpha,
    }
}

pub fn gen_simple_pat(sig: &LangSig, alphabet: usize, src: &mut Src, depth: usize, max_depth: usize) -> Tm {
    let vars = ["a", "b", "c"];
    if depth > 0 && (depth >= max_depth || src.pick(3) == 0) {
        return pvar(vars[src.pick(vars.len())]);
    }
    let o = &sig.ops[src.pick(sig.ops.len())];
    let mut args = Vec::new();
    for f in &o.fields {
        match f {
            Field::Slot => args.push(Arg::S(src.pick(alphabet) as Name)),
            Field::PayU32 => args.push(Arg::P(format!("{}", src.pick(4)))),
            Field::PaySym => args.push(Arg::P(["s", "t", "map"][src.pick(3)].to_string())),
            Field::PayOther(v) => args.push(Arg::P(v[src.pick(v.len())].to_string())),
            Field::Kid(nb) => {
                let mut bs: Vec<Name> = (0..*nb).map(|_| src.pick(alphabet + 2) as Name).collect();
                if bs.len() == 2 && bs[0] == bs[1] {
                    bs[1] = (bs[1] + 1) % (alphabet as Name + 2);
                }
                args.push(Arg::K(bs, gen_simple_pat(sig, alphabet, src, depth + 1, max_depth)));
            }
        }
    }
    Tm { op: o.name.to_string(), args }
}

fn gen_multi(sig: &LangSig, src: &mut Src) -> Vec<(String, Tm)> {
    let vars = ["x", "a", "b", "c"];
    let n = 1 + src.pick(3);
    let mut eqs = Vec::new();
    for _ in 0..n {
        let v = vars[src.pick(vars.len())].to_string();
        let o = &sig.ops[src.pick(sig.ops.len())];
        let mut args = Vec::new();
        for f in &o.fields {
            match f {
                Field::Slot => args.push(Arg::S(src.pick(4) as Name)),
                Field::PayU32 => args.push(Arg::P(format!("{}", src.pick(4)))),
                Field::PaySym => args.push(Arg::P("s".into())),
                Field::PayOther(v) => args.push(Arg::P(v[0].to_string())),
                Field::Kid(nb) => {
                    let mut bs: Vec<Name> = (0..*nb).map(|_| 4 + src.pick(3) as Name).collect();
                    if bs.len() == 2 && bs[0] == bs[1] {
                        bs[1] = 4 + (bs[1] - 4 + 1) % 3;
                    }
                    args.push(Arg::K(bs, pvar(vars[src.pick(vars.len())])));
                }
            }
        }
        eqs.push((v, Tm { op: o.name.to_string(), args }));
    }
    eqs
}

/// a pattern obtained from an inserted term by replacing subterms with variables; subterms with the same operator and the
/// same number of free names tend to get the same variable (non-linear patterns whose instances differ only in argument order
/// or in a renamed slot - the matcher has to compare them semantically)
pub fn abstract_term(t: &Tm, src: &mut Src, seen: &mut Vec<((String, usize), String)>, depth: usize) -> Tm {
    let vars = ["a", "b", "c", "d"];
    if depth > 0 && src.pick(3) == 0 {
        let key = (t.op.clone(), t.fv().len());
        if let Some((_, v)) = seen.iter().find(|(k, _)| *k == key) {
            if src.pick(3) != 0 {
                return pvar(v);
            }
        }
        let v = vars[seen.len() % vars.len()].to_string();
        seen.push((key, v.clone()));
        return pvar(&v);
    }
    Tm {
        op: t.op.clone(),
        args: t
            .args
            .iter()
            .map(|a| match a {
                Arg::K(bs, k) => Arg::K(bs.clone(), abstract_term(k, src, seen, depth + 1)),
                o => o.clone(),
            })
            .collect(),
    }
}

/// a multi-pattern obtained by flattening an inserted term into equations `?v == node(?children)`, then (sometimes) identifying
/// two variables or two slot names, so that the matcher's unification and disequality bookkeeping is exercised on real matches
pub fn multi_from_term(ts: &[Tm], src: &mut Src) -> Vec<(String, Tm)> {
    let names = ["x", "a", "b", "c", "d", "e", "g", "m", "n"];
    let mut eqs: Vec<(String, Tm)> = Vec::new();
    let mut next = 0usize;
    // equal subterms (also across the given terms) share one variable
    let mut var_of: Vec<(Tm, String)> = Vec::new();
    let mut queue: std::collections::VecDeque<(String, Tm)> = std::collections::VecDeque::new();
    for t in ts {
        let v = names[next % names.len()].to_string();
        next += 1;
        var_of.push((t.clone(), v.clone()));
        queue.push_back((v, t.clone()));
    }
    // breadth first: roots first, leaves last
    while let Some((v, node)) = queue.pop_front() {
        if eqs.len() >= 5 {
            break;
        }
        let mut args = Vec::new();
        for a in &node.args {
            match a {
                Arg::K(bs, k) => {
                    let shared = if bs.is_empty() { var_of.iter().find(|(t, _)| t == k).map(|(_, v)| v.clone()) } else { None };
                    let cv = match shared {
                        Some(v) => v,
                        None => {
                            let cv = names[next % names.len()].to_string();
                            next += 1;
                            if bs.is_empty() {
                                var_of.push((k.clone(), cv.clone()));
                            }
                            if src.pick(4) != 0 {
                                queue.push_back((cv.clone(), k.clone()));
                            }
                            cv
                        }
                    };
                    args.push(Arg::K(bs.clone(), pvar(&cv)));
                }
                o => args.push(o.clone()),
            }
        }
        eqs.push((v, Tm { op: node.op.clone(), args }));
    }
    // identify two variables
    if src.pick(3) == 0 {
        let vars: Vec<String> = eqs.iter().flat_map(|(_, t)| t.subterms().into_iter().filter(|s| is_pvar(s)).map(|s| pvar_name(s).to_string()).collect::<Vec<_>>()).collect();
        if vars.len() >= 2 {
            let from = vars[src.pick(vars.len())].clone();
            let to = vars[src.pick(vars.len())].clone();
            for (v, t) in eqs.iter_mut() {
                if *v == from {
                    *v = to.clone();
                }
                for a in t.args.iter_mut() {
                    if let Arg::K(_, k) = a {
                        if is_pvar(k) && pvar_name(k) == from {
                            *k = pvar(&to);
                        }
                    }
                }
            }
        }
    }
    // identify two slot names across the equations
    if src.pick(3) == 0 {
        let slots: Vec<Name> = eqs.iter().flat_map(|(_, t)| t.args.iter().filter_map(|a| if let Arg::S(n) = a { Some(*n) } else { None }).collect::<Vec<_>>()).collect();
        if slots.len() >= 2 {
            let from = slots[src.pick(slots.len())];
            let to = slots[src.pick(slots.len())];
            for (_, t) in eqs.iter_mut() {
                for a in t.args.iter_mut() {
                    if let Arg::S(n) = a {
                        if *n == from {
                            *n = to;
                        }
                    }
                }
            }
        }
    }
    eqs
}

fn pat_vars(p: &Tm) -> BTreeSet<String> {
    p.subterms().iter().filter(|s| is_pvar(s)).map(|s| pvar_name(s).to_string()).collect()
}

pub fn run(c: &MatchCase, obs: &mut Obs) -> Result<(), String> {
    crate::with_lang!(c.base.lang, L => run_l::<L>(c, obs))
}

fn run_l<L: Language + 'static>(c: &MatchCase, obs: &mut Obs) -> Result<(), String> {
    let mut eg: EGraph<L> = new_egraph((), c.base.extraction_subst);
    let st = drive::<L, ()>(&c.base, &mut eg, &mut |_, _, _| Ok(()))?;
    let nm = pattern_naming(&eg, c.pat_naming);
    match c.pat_naming {
        1 => obs.label("pattern-slots-named-like-class-slots"),
        2 | 3 => obs.label("pattern-slots-f<n>-or-numeric"),
        _ => {}
    }
    let tracked = st.handles.clone();
    let before = fingerprint(&eg, &tracked);
    let pr = eg.progress();
    let special = pr.sum_of_symmetries > pr.number_of_live_classes || eg.ids().iter().any(|i| eg.enodes(*i).iter().any(|n| n.slots().len() > eg.slots(*i).len()));
    let mut n_matches = 0u64;
    for p in &c.pats {
        let txt = render_pat(p, &nm);
        let pat: Pattern<L> = Pattern::parse(&txt).map_err(|e| format!("harness: pattern {txt} does not parse: {e:?}"))?;
        let vars = pat_vars(p);
        for m in ematch_all(&eg, &pat) {
            n_matches += 1;
            obs.cmp(2);
            for v in &vars {
                if !m.contains_key(v) {
                    return Err(format!("match of {txt} does not bind ?{v}: {:?}", m));
                }
            }
            match lookup_pattern(&eg, &pat, &m) {
                Some(Some(_)) => {}
                _ => return Err(format!("match {:?} of pattern {txt}: the instantiated pattern is not represented in the e-graph", m)),
            }
        }
    }
    for eqs in &c.multi {
        let txt = eqs.iter().map(|(v, t)| format!("?{} == {}", v, render_pat(t, &nm))).collect::<Vec<_>>().join(", ");
        let mp: MultiPattern<L> = MultiPattern::parse(&txt).map_err(|e| format!("harness: multi-pattern {txt} does not parse: {e:?}"))?;
        for m in multi_ematch(&mp, &eg) {
            n_matches += 1;
            for (v, t) in eqs {
                obs.cmp(1);
                let Some(lhs) = m.get(v) else { return Err(format!("multi-pattern {txt}: match does not bind ?{v}: {:?}", m)) };
                for kv in pat_vars(t) {
                    if !m.contains_key(&kv) {
                        return Err(format!("multi-pattern {txt}: match does not bind ?{kv}: {:?}", m));
                    }
                }
                let node_pat: Pattern<L> = Pattern::parse(&render_pat(t, &nm)).map_err(|e| format!("{e:?}"))?;
                match lookup_pattern(&eg, &node_pat, &m) {
                    Some(Some(a)) => {
                        if !eg.eq(&a, lhs) {
                            return Err(format!("multi-pattern {txt}: in match {:?} the equation ?{v} == {} does not hold ({:?} vs {:?})", m, render_pat(t, &nm), lhs, a));
                        }
                    }
                    _ => return Err(format!("multi-pattern {txt}: in match {:?} the node {} is not represented", m, render_pat(t, &nm))),
                }
            }
        }
    }
    let after = fingerprint(&eg, &tracked);
    if before != after {
        return Err(format!("matching changed the e-graph: {:?} -> {:?}", before, after));
    }
    if special {
        obs.label("symmetry-or-redundancy");
    }
    if n_matches > 0 {
        obs.label("has-matches");
    }
    obs.count("matches", n_matches);
    obs.nontrivial = n_matches > 0 && st.effective_unions > 0;
    Ok(())
}

pub fn strategy(lang: LangId) -> BoxedStrategy<MatchCase> {
    let mut cfg = MixedCfg::for_lang(lang);
    cfg.max_ops = 7;
    let sig = lang.sig();
    (mixed_strategy(cfg), proptest::collection::vec(proptest::collection::vec(any::<u16>(), 0..30), 1..5), proptest::collection::vec(proptest::collection::vec(any::<u16>(), 0..30), 0..4), any::<u8>())
        .prop_map(move |(base, pch, mch, pn)| {
            let pat_naming = match pn % 10 {
                0..=4 => 0u8,
                5..=7 => 1,
                8 => 2,
                _ => 3,
            };
            let terms = base.terms();
            let pats = pch
                .iter()
                .enumerate()
                .map(|(i, ch)| {
                    let mut src = Src::new(ch);
                    if i % 2 == 0 && !terms.is_empty() {
                        let t = &terms[src.pick(terms.len())];
                        // pattern slots get their own names (shifted), as the matcher treats pattern slots as distinct from e-graph slots
                        let p = abstract_term(t, &mut src, &mut Vec::new(), 0);
                        if p.subterms().len() > 1 || !is_pvar(&p) {
                            return p;
                        }
                    }
                    gen_simple_pat(&sig, 4, &mut src, 0, 3)
                })
                .collect();
            let multi = mch
                .iter()
                .enumerate()
                .map(|(i, ch)| {
                    let mut src = Src::new(ch);
                    if i % 2 == 0 && !terms.is_empty() {
                        let t = &terms[src.pick(terms.len())];
                        // flatten the term or one of its subterms
                        let subs = t.subterms();
                        let st = subs[src.pick(subs.len())].clone();
                        let t2 = &terms[src.pick(terms.len())];
                        let subs2 = t2.subterms();
                        let st2 = subs2[src.pick(subs2.len())].clone();
                        if !st.op.is_empty() {
                            if !st2.op.is_empty() && st2 != st && src.pick(2) == 0 {
                                return multi_from_term(&[st, st2], &mut src);
                            }
                            return multi_from_term(&[st], &mut src);
                        }
                    }
                    gen_multi(&sig, &mut src)
                })
                .collect();
            MatchCase { base, pats, multi, pat_naming }
        })
        .boxed()
}

pub fn property(tier: Tier) -> Property {
    let mut stages: Vec<Box<dyn DynStage>> = Vec::new();
    for (name, lang, q, t) in [("match-core", LangId::Core, 5000u32, 100_000u32), ("match-lambda", LangId::Lambda, 1500, 30_000), ("match-arith2", LangId::Arith2, 1500, 30_000), ("match-sdql", LangId::Sdql, 1000, 20_000), ("match-fgh", LangId::Fgh, 1000, 20_000)] {
        stages.push(Box::new(Stage {
            name,
            source: random(move || strategy(lang), tier.pick(q, t)),
            run,
            panic_is_violation: false,
            render: |c: &MatchCase| {
                format!(
                    "{} pattern-slot-naming={} patterns={:?} multi={:?}",
                    c.base.render(),
                    ["as-written", "names-of-existing-class-slots", "$f<n>", "numeric"][c.pat_naming.min(3) as usize],
                    c.pats.iter().map(|p| render_pat(p, &Naming::Alpha)).collect::<Vec<_>>(),
                    c.multi.iter().map(|e| e.iter().map(|(v, t)| format!("?{} == {}", v, render_pat(t, &Naming::Alpha))).collect::<Vec<_>>().join(", ")).collect::<Vec<_>>()
                )
            },
            rule: "a reachable e-graph (mixed history with symmetric / redundant / self-referential unions and rewriting), 1-4 patterns, half of them random (depth <= 3, repeated variables, free and bound slots, also unmatched ones; pattern slots spelled like the terms' slots, or with the names of parameter slots of existing classes, or $f<n>, or numeric) and half obtained from inserted terms by replacing subterms with (often repeated) variables and 0-3 multi-patterns (random ones with 1-3 equations and shared variables, and ones obtained by flattening one or two inserted (sub)terms into up to 5 equations (equal subterms share a variable), sometimes with two variables or two slot names identified); every returned substitution is total, its instance looks up without inserting, multi-pattern equations hold, fingerprint unchanged; non-trivial = at least one match on an e-graph with an effective union; distinct by rendered case",
            case_timeout_s: tier.pick(30, 120),
            exhaustive: false,
        }));
    }
    Property { id: "C05", scale: tier.pick(5, 2), stages, assumptions: vec![] }
}
