//! C03 — rewriting with valid rules preserves meaning, including under binders.
use crate::egx::*;
use crate::engine::*;
use crate::fprules::*;
use crate::langs::*;
use crate::oracle::bf::*;
use crate::oracle::fp::*;
use crate::pat::*;
use crate::tm::*;
use proptest::prelude::*;
use serde::{Deserialize, Serialize};
use slotted_egraphs::*;
use std::collections::{BTreeMap, HashMap};

#[derive(Clone, Debug, PartialEq, Eq, Hash, Serialize, Deserialize)]
pub struct RwCase {
    pub start: Tm,
    pub rules: Vec<usize>,
    pub iters: u8,
    pub extraction_subst: bool,
    pub use_runner: bool,
    pub env_seed: u64,
    /// 0: the rules' slots as written; k > 0: spelled with names of parameter slots of classes that exist when the rules are
    /// built ($f<n>; rebuilt before every apply_rewrites call, once before a Runner run)
    #[serde(default)]
    pub rule_slot_variant: u8,
}

pub struct Sem<'a, N: Analysis<Fp>> {
    pub eg: &'a EGraph<Fp, N>,
    pub best: BTreeMap<Id, Fp>,
    pub memo: HashMap<(Id, Vec<(Slot, u32)>), u32>,
    pub evals: u64,
}

impl<'a, N: Analysis<Fp>> Sem<'a, N> {
    pub fn new(eg: &'a EGraph<Fp, N>) -> Self {
        Sem { eg, best: best_nodes(eg, &AstSize), memo: HashMap::new(), evals: 0 }
    }

    pub fn val_class(&mut self, c: Id, env: &BTreeMap<Slot, u32>) -> Result<u32, String> {
        let slots = self.eg.slots(c);
        let key: Vec<(Slot, u32)> = slots.iter().map(|s| (*s, *env.get(s).unwrap_or(&0))).collect();
        if let Some(v) = self.memo.get(&(c, key.clone())) {
            return Ok(*v);
        }
        let n = self.best.get(&c).cloned().ok_or_else(|| format!("class {:?} has no finite term", c))?;
        // redundant slots of the representative get the value 0 (its value must not depend on them; checked through (a))
        let mut e2: BTreeMap<Slot, u32> = key.iter().copied().collect();
        for s in n.slots().iter() {
            e2.entry(*s).or_insert(0);
        }
        let v = self.val_node(&n, &e2)?;
        self.memo.insert((c, key), v);
        Ok(v)
    }

    fn val_app(&mut self, a: &AppliedId, env: &BTreeMap<Slot, u32>) -> Result<u32, String> {
        if !self.eg.is_alive(a.id) {
            return Err(format!("e-node refers to dead class {:?}", a.id));
        }
        let mut e2 = BTreeMap::new();
        for (k, v) in a.m.iter() {
            let x = env.get(&v).ok_or_else(|| format!("child invocation {:?} mentions slot {:?} that is neither a slot of the node nor bound", a, v))?;
            e2.insert(k, *x);
        }
        self.val_class(a.id, &e2)
    }

    pub fn val_node(&mut self, n: &Fp, env: &BTreeMap<Slot, u32>) -> Result<u32, String> {
        self.evals += 1;
        Ok(match n {
            Fp::Var(s) => *env.get(s).ok_or_else(|| format!("no value for {:?}", s))? % P,
            Fp::Num(k) => k % P,
            Fp::Add(a, b) => (self.val_app(a, env)? + self.val_app(b, env)?) % P,
            Fp::Mul(a, b) => (self.val_app(a, env)? * self.val_app(b, env)?) % P,
            Fp::Neg(a) => (P - self.val_app(a, env)?) % P,
            Fp::Sum(Bind { slot, elem }) => {
                let mut s = 0;
                for v in 0..SUM_RANGE {
                    let mut e = env.clone();
                    e.insert(*slot, v);
                    s = (s + self.val_app(elem, &e)?) % P;
                }
                s
            }
            Fp::Let(Bind { slot, elem }, e) => {
                let v = self.val_app(e, env)?;
                let mut e2 = env.clone();
                e2.insert(*slot, v);
                self.val_app(elem, &e2)?
            }
        })
    }
}

fn xorshift(state: &mut u64) -> u32 {
    *state ^= *state << 13;
    *state ^= *state >> 7;
    *state ^= *state << 17;
    (*state >> 20) as u32
}

/// every e-node of every class denotes the class's function; returns number of node evaluations
pub fn check_semantics<N: Analysis<Fp>>(eg: &EGraph<Fp, N>, env_seed: u64, n_envs: usize) -> Result<(u64, bool), String> {
    let mut sem = Sem::new(eg);
    let mut st = env_seed | 1;
    let mut big_class = false;
    for c in eg.ids() {
        let nodes: Vec<Fp> = {
            let mut v: Vec<Fp> = eg.enodes(c).into_iter().collect();
            v.sort();
            v
        };
        if nodes.len() >= 3 {
            big_class = true;
        }
        let cslots = eg.slots(c);
        for _ in 0..n_envs {
            let mut env: BTreeMap<Slot, u32> = BTreeMap::new();
            for s in cslots.iter() {
                env.insert(*s, xorshift(&mut st) % P);
            }
            let expected = sem.val_class(c, &env)?;
            for n in &nodes {
                if !n.slots().is_superset(&cslots) {
                    return Err(format!("e-node {:?} of class {:?} does not mention all class slots", n, c));
                }
                // redundant slots: fresh random values each time
                let mut e2 = env.clone();
                for s in n.slots().iter() {
                    if !cslots.contains(s) {
                        e2.insert(*s, xorshift(&mut st) % P);
                    }
                }
                let v = sem.val_node(n, &e2)?;
                if v != expected {
                    return Err(format!(
                        "class {:?} with slots {:?}: under {:?} the e-node {:?} evaluates to {} but the class's cheapest e-node {:?} to {}",
                        c, cslots, e2, n, v, sem.best.get(&c), expected
                    ));
                }
            }
        }
    }
    Ok((sem.evals, big_class))
}

fn run(c: &RwCase, obs: &mut Obs) -> Result<(), String> {
    let nm = Naming::Alpha;
    let pool = fp_rules();
    let mk_rules = |eg: &EGraph<Fp>| -> Vec<Rewrite<Fp, ()>> {
        c.rules
            .iter()
            .map(|i| if c.rule_slot_variant == 0 { build_fp_rule::<()>(&pool[*i % pool.len()]) } else { build_fp_rule_classnamed::<()>(&pool[*i % pool.len()], eg, c.rule_slot_variant as usize - 1) })
            .collect()
    };
    let rules: Vec<Rewrite<Fp, ()>> = c.rules.iter().map(|i| build_fp_rule::<()>(&pool[*i % pool.len()])).collect();
    let re = parse_tm::<Fp>(&c.start, &nm);
    let mut eg: EGraph<Fp> = crate::mixed::new_egraph((), c.extraction_subst);
    let root;
    let mut changed = 0;
    // ExtractionSubst builds a whole Extractor per substitution: bound the e-graph by size, not by time
    let heavy = c.extraction_subst && c.rules.iter().any(|i| pool[*i % pool.len()].has_subst);
    let node_limit = if heavy { 120 } else { 250 };
    let iters = if heavy { c.iters.min(2) } else { c.iters };
    if std::env::var("VERIF_DEBUG").is_ok() {
        let mut eg2: EGraph<Fp> = crate::mixed::new_egraph((), c.extraction_subst);
        eg2.add_expr(re.clone());
        for it in 0..iters {
            for (ri, r) in rules.iter().enumerate() {
                let t0 = std::time::Instant::now();
                let ch = apply_rewrites(&mut eg2, std::slice::from_ref(r));
                eprintln!("iter {it} rule {} changed={ch} nodes={} classes={} {:.2}s", pool[c.rules[ri] % pool.len()].name, eg2.total_number_of_nodes(), eg2.ids().len(), t0.elapsed().as_secs_f64());
            }
        }
        eg2.dump();
    }
    if c.use_runner {
        let mut runner: Runner<Fp, (), (), String> = Runner::new(()).with_egraph(eg).with_iter_limit((iters as usize).saturating_sub(2)).with_node_limit(node_limit); // the Runner performs iter_limit + 2 iterations
        root = runner.egraph.add_expr(re);
        let rules = mk_rules(&runner.egraph);
        let rep = runner.run(&rules);
        if rep.iterations > 1 {
            changed = 1;
        }
        eg = runner.egraph;
    } else {
        root = eg.add_expr(re);
        for _ in 0..iters {
            if eg.total_number_of_nodes() > node_limit {
                break;
            }
            let rules = mk_rules(&eg);
            if apply_rewrites(&mut eg, &rules) {
                changed += 1;
            } else {
                break;
            }
        }
    }
    // (a), (b): every e-node of every class
    let (evals, big) = check_semantics(&eg, c.env_seed, 8)?;
    obs.cmp(evals);
    // (c): the root denotes the start term
    let names: Vec<Name> = c.start.fv().into_iter().collect();
    let froot = eg.find_applied_id(&root);
    let mut sem = Sem::new(&eg);
    let mut st = c.env_seed.wrapping_add(77) | 1;
    for _ in 0..8 {
        let mut by_name: BTreeMap<Name, u32> = BTreeMap::new();
        for n in &names {
            by_name.insert(*n, xorshift(&mut st) % P);
        }
        let direct = eval(&c.start, &by_name, P);
        let mut env: BTreeMap<Slot, u32> = BTreeMap::new();
        for (k, v) in froot.m.iter() {
            let n = names.iter().find(|n| slot_of(**n, &nm) == v).ok_or_else(|| format!("root invocation {:?} has a slot that is no free name of the start term", froot))?;
            env.insert(k, by_name[n]);
        }
        let got = sem.val_class(froot.id, &env)?;
        obs.cmp(1);
        if got != direct {
            return Err(format!("after rewriting, the class of the start term evaluates to {} under {:?}, the start term itself to {}", got, by_name, direct));
        }
    }
    let has_binder = c.start.subterms().iter().any(|s| s.kids().iter().any(|(b, _)| !b.is_empty()));
    let binder_rule = c.rules.iter().any(|i| pool[*i % pool.len()].binder_rule);
    if binder_rule {
        obs.label("binder-rule");
    }
    if c.rules.iter().any(|i| pool[*i % pool.len()].has_subst) {
        obs.label("substitution-rule");
    }
    if c.extraction_subst {
        obs.label("ExtractionSubst");
    }
    if c.rule_slot_variant > 0 {
        obs.label("rule-slots-named-like-class-slots");
    }
    if c.rules.iter().any(|i| !pool[*i % pool.len()].not_free.is_empty()) {
        obs.label("conditional-rule");
    }
    if big {
        obs.label("class>=3-nodes");
    }
    {
        let pr = eg.progress();
        if pr.sum_of_symmetries > pr.number_of_live_classes {
            obs.label("symmetric-class-reached");
        }
    }
    obs.nontrivial = changed > 0 && big && has_binder && binder_rule;
    Ok(())
}

fn gen_start(ch: &[u16]) -> (Tm, Option<usize>) {
    let sig = LangId::Fp.sig();
    let mut src = Src::new(ch);
    let cfg = GenCfg { alphabet: 3, max_depth: 3, payload_u32_max: 4, avoid_same_node_shadowing: false, ..GenCfg::default() };
    let pool = fp_rules();
    // one case in six: a semantically symmetric term S (invariant under some, not all, permutations of its four names, once
    // commutativity has been applied) used twice, the second time with permuted names and possibly negated: op(S, f(S[pi])).
    // Non-linear rules (add-neg, factor, let-intro) must fire on it exactly when pi is a symmetry of S - a repeated pattern
    // variable has to be compared through the class's group, not through slot sets or orbits.
    if src.pick(6) == 0 {
        let v = |n: Name| Tm::node("var", vec![Arg::S(n)]);
        let bin = |op: &str, a: Tm, b: Tm| Tm::node(op, vec![Arg::K(vec![], a), Arg::K(vec![], b)]);
        let shape = |k: usize, n: &[Name]| -> Tm {
            match k {
                0 => bin("add", bin("mul", v(n[0]), v(n[1])), bin("mul", v(n[2]), v(n[3]))),
                1 => bin("mul", bin("add", v(n[0]), v(n[1])), bin("add", v(n[2]), v(n[3]))),
                2 => bin("add", bin("mul", v(n[0]), v(n[1])), v(n[2])),
                3 => bin("add", bin("mul", v(n[0]), v(n[1])), bin("mul", v(n[1]), v(n[2]))),
                4 => bin("mul", bin("add", v(n[0]), v(n[1])), bin("mul", v(n[2]), v(n[3]))),
                _ => bin("add", bin("add", v(n[0]), v(n[1])), bin("mul", v(n[2]), v(n[3]))),
            }
        };
        let k = src.pick(6);
        let names: Vec<Name> = vec![0, 1, 2, 3];
        let mut perm = names.clone();
        for i in (1..perm.len()).rev() {
            let j = src.pick(i + 1);
            perm.swap(i, j);
        }
        let s1 = shape(k, &names);
        let s2 = shape(k, &perm);
        let s2 = if src.pick(2) == 0 { Tm::node("neg", vec![Arg::K(vec![], s2)]) } else { s2 };
        let t = match src.pick(3) {
            0 => bin("add", s1, s2),
            1 => bin("mul", s1, s2),
            _ => bin("add", bin("mul", v(0), s1), bin("mul", v(0), s2)),
        };
        // the rules that make S symmetric and the non-linear ones are added by the caller (planted = usize::MAX)
        return (t, Some(usize::MAX));
    }
    // one case in eight: a let whose body uses one multi-slot class twice with different arguments, both containing the bound
    // variable, and whose replacement term shares a variable with one of them (substitution must not confuse the two uses)
    if src.pick(8) == 0 {
        let v = |n: Name| Tm::node("var", vec![Arg::S(n)]);
        let bin = |op: &str, a: Tm, b: Tm| Tm::node(op, vec![Arg::K(vec![], a), Arg::K(vec![], b)]);
        let x: Name = 21;
        let k = src.pick(3);
        let s = |a: Name| match k {
            0 => bin("mul", v(x), v(a)),
            1 => bin("add", bin("mul", v(x), v(a)), v(x)),
            _ => bin("mul", bin("add", v(x), v(a)), v(a)),
        };
        let (a, b) = (src.pick(3) as Name, src.pick(3) as Name);
        let body = bin(["add", "mul"][src.pick(2)], s(a), s(b));
        let t = match src.pick(3) {
            0 => v(a),
            1 => bin("add", v(b), Tm { op: String::new(), args: vec![Arg::P("1".into())] }),
            _ => bin("mul", v(a), v(b)),
        };
        let start = Tm::node("let", vec![Arg::K(vec![x], body), Arg::K(vec![], t)]);
        let ri = pool.iter().position(|r| r.name == "let-subst").unwrap();
        return (start, Some(ri));
    }
    // half of the time: a context around an instance of some rule's left side (so that rules fire)
    if src.pick(4) == 0 {
        return (cap_fv(&gen_tm(&sig, &cfg, &mut src, 0), 3), None);
    }
    // half of the planted instances ignore the rule's side condition (the rule must then *not* fire on them);
    // those are planted for conditional rules only
    let respect_condition = src.pick(2) == 0;
    let conditional: Vec<usize> = (0..pool.len()).filter(|i| !pool[*i].not_free.is_empty()).collect();
    let ri = if respect_condition { src.pick(pool.len()) } else { conditional[src.pick(conditional.len())] };
    let r = &pool[ri];
    let lhs = parse_pat_text(&sig, r.lhs).unwrap();
    let scopes = pvars_scopes(&lhs);
    let mut sigma = BTreeMap::new();
    for (v, scope) in &scopes {
        let mut allowed: Vec<Name> = vec![0, 1, 2];
        for s in scope {
            if !respect_condition || !r.not_free.iter().any(|(sl, var)| var == v && name_of_alpha(&format!("${}", sl)) == Some(*s)) {
                allowed.push(*s);
            }
        }
        let c2 = GenCfg { alphabet: allowed.len() as u8, max_depth: 2, bound_from_alphabet: false, payload_u32_max: 4, ..GenCfg::default() };
        let t = gen_tm(&sig, &c2, &mut src, 0).rename_all(&|n| if (n as usize) < allowed.len() { allowed[n as usize] } else { n });
        sigma.insert(v.clone(), t);
    }
    let mut fresh: Name = 120;
    let mut inst = instantiate(&lhs, &sigma, &BTreeMap::new(), "var", &mut fresh).unwrap();
    // one planted instance in five is a near miss: one occurrence of a variable that the left side binds is replaced by a free
    // variable (which usually occurs elsewhere in the instance too); the rule must not treat the free slot as the bound one
    if src.pick(5) == 0 {
        let bound: std::collections::BTreeSet<Name> = crate::pat::pat_bound_slots(&inst).into_iter().collect();
        let n = inst.size();
        let pos: Vec<usize> = (0..n).filter(|i| { let s = nth_subterm(&inst, *i); s.op == "var" && matches!(s.args.first(), Some(Arg::S(x)) if bound.contains(x)) }).collect();
        if !pos.is_empty() {
            let i = pos[src.pick(pos.len())];
            inst = replace_nth(&inst, i, &Tm::node("var", vec![Arg::S(src.pick(3) as Name)]));
        }
    }
    // context
    let ctx = match src.pick(4) {
        0 => inst,
        1 => Tm::node("add", vec![Arg::K(vec![], inst), Arg::K(vec![], gen_tm(&sig, &GenCfg { max_depth: 1, ..cfg.clone() }, &mut src, 0))]),
        2 => Tm::node("sum", vec![Arg::K(vec![src.pick(3) as Name], inst)]),
        _ => Tm::node("mul", vec![Arg::K(vec![], gen_tm(&sig, &GenCfg { max_depth: 1, ..cfg.clone() }, &mut src, 0)), Arg::K(vec![], inst)]),
    };
    (cap_fv(&ctx, 4), Some(ri))
}

fn strategy(max_iters: u8) -> BoxedStrategy<RwCase> {
    (
        proptest::collection::vec(any::<u16>(), 0..80),
        proptest::collection::vec(0usize..crate::fprules::fp_rules().len(), 1..8),
        1u8..=max_iters,
        any::<bool>(),
        any::<bool>(),
        any::<u64>(),
        any::<u8>(),
    )
        .prop_map(|(ch, mut rules, iters, extraction_subst, use_runner, env_seed, rv)| {
            let (start, planted) = gen_start(&ch);
            if planted == Some(usize::MAX) {
                // symmetric-pair start term: commutativity (makes the repeated subterm's class symmetric) plus non-linear rules
                let pool = fp_rules();
                for n in ["add-comm", "mul-comm", "add-neg", "factor", "let-intro"] {
                    rules.push(pool.iter().position(|r| r.name == n).unwrap());
                }
            } else if let Some(p) = planted {
                // the rule whose left side was planted is part of the rule set
                rules.push(p);
            }
            RwCase { start, rules, iters, extraction_subst, use_runner, env_seed, rule_slot_variant: if rv % 3 == 0 { 1 + (rv / 3) % 6 } else { 0 } }
        })
        .boxed()
}

pub fn property(tier: Tier) -> Property {
    let max_iters = tier.pick(4, 4);
    let stages: Vec<Box<dyn DynStage>> = vec![Box::new(Stage {
        name: "rewrite-fp",
        source: random(move || strategy(max_iters), tier.pick(4000, 80_000)),
        run,
        panic_is_violation: false,
        render: |c: &RwCase| {
            let pool = fp_rules();
            format!(
                "start={} rules=[{}] iters={} {} {}",
                c.start.txt(),
                c.rules.iter().map(|i| pool[*i % pool.len()].name).collect::<Vec<_>>().join(","),
                c.iters,
                if c.extraction_subst { "ExtractionSubst" } else { "SynExprSubst" },
                                if c.use_runner { "Runner" } else { "apply_rewrites" }.to_string() + if c.rule_slot_variant > 0 { " rule slots named like existing class slots" } else { "" }
            )
        },
        rule: "start term over the F_5 language (summation over the index set {0,1}) (half of them a context around an instance of a rule's left side; one in six a symmetric four-name term used twice with permuted names under add/mul/neg, rewritten with commutativity and the non-linear rules), a subset of 1-7 of the 37 model-valid rules (incl. chained substitutions and a left side with two binders that uses the inner bound slot explicitly; one planted instance in five is a near miss in which a bound variable occurrence is replaced by a free variable) (conditions assembled from the library's slot_free_in / and / or / not) (assoc/comm/distrib, units, sum linearity both ways, scaling into and out of the binder, sum shift, let rules, b[x:=t] right sides), 1-4/5 iterations under apply_rewrites or Runner (node limit 1500), both substitution methods; every e-node of every class evaluated in 8 random environments against the class's Bellman-Ford-cheapest e-node, redundant slots given fresh random values, root against direct evaluation of the start term; non-trivial = rewriting changed the e-graph, a binder rule was in the set, the start term has a binder and some class has >= 3 e-nodes; distinct by rendered case",
        case_timeout_s: tier.pick(30, 120),
        exhaustive: false,
    })];
    Property {
        id: "C03", scale: tier.pick(4, 2),
        stages,
        assumptions: vec![
            "the rule pool is valid in the model (self-checked by random model-level instantiation: `sev validate-rules`)".into(),
            "a wrong e-node passes one environment with probability 1/5; 8 independent environments per class".into(),
        ],
    }
}
