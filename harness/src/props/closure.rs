//! C01 / C02: compare the e-graph's equality, redundancy and symmetry answers with the ground
//! congruence closure, after every step of a history.

use crate::egx::*;
use crate::engine::Obs;
use crate::hist::*;
use crate::known;
use crate::oracle::ground::*;
use crate::tm::*;
use slotted_egraphs::*;
use std::collections::{BTreeMap, BTreeSet};

#[derive(Clone, Copy, PartialEq, Eq, Debug)]
pub enum Dir {
    /// C01: e-graph says equal/redundant/symmetric => oracle must agree
    Sound,
    /// C02: oracle says equal/redundant/symmetric => e-graph must agree
    Complete,
}

pub struct Discrepancy {
    pub step: usize,
    pub what: String,
}

/// all distinct (by text) subterms of the terms added so far
fn all_subterms(terms: &[Tm]) -> Vec<Tm> {
    let mut seen = BTreeSet::new();
    let mut out = Vec::new();
    for t in terms {
        for s in t.subterms() {
            if seen.insert(s.clone()) {
                out.push(s.clone());
            }
        }
    }
    out
}

pub fn run_closure(case: &Hist, dir: Dir, obs: &mut Obs) -> Result<(), String> {
    crate::with_lang!(case.lang, L => run_closure_l::<L, ()>(case, dir, obs))
}

/// the same check on an e-graph that carries an analysis (smallest term size): unions then change class data, and
/// analysis-only re-processing of e-nodes is interleaved with the structural one
pub fn run_closure_analysis(case: &Hist, dir: Dir, obs: &mut Obs) -> Result<(), String> {
    crate::with_lang!(case.lang, L => run_closure_l::<L, crate::analyses::MinSize>(case, dir, obs))
}

fn escalate(case: &Hist, upto_step: usize, n: usize) -> Ground {
    let terms = case.terms();
    let mut g = Ground::new(&terms, n);
    let mut added: Vec<Tm> = Vec::new();
    for (k, op) in case.ops.iter().enumerate() {
        if k > upto_step {
            break;
        }
        match op {
            HOp::Add(t) => added.push(t.clone()),
            HOp::Union(i, j) => g.assert_eq(&added[*i], &added[*j]),
        }
    }
    g
}

fn run_closure_l<L: Language, N: Analysis<L> + Default>(case: &Hist, dir: Dir, obs: &mut Obs) -> Result<(), String> {
    let nm = &case.naming;
    let terms = case.terms();
    if terms.is_empty() {
        return Ok(());
    }
    if let Some(k) = known::route_history(case) {
        obs.skip = Some(k);
        return Ok(());
    }
    let m = Ground::max_fv(&terms);
    // two nodes with k binders need k common fresh names: 2m + k names at least
    let maxnb = terms.iter().flat_map(|t| t.subterms()).flat_map(|s| s.kids().into_iter().map(|(b, _)| b.len()).collect::<Vec<_>>()).max().unwrap_or(0);
    let n_small = (2 * m + maxnb.max(1)).max(3);
    let n_big = (3 * m + 1).max(n_small);
    let mut g = Ground::new(&terms, n_small);
    if g.too_big {
        obs.label("oracle-too-big");
        return Ok(());
    }
    let mut big: Option<(usize, Ground)> = None;

    let mut eg: EGraph<L, N> = EGraph::new(N::default());
    let mut ids: Vec<AppliedId> = Vec::new();
    let mut added: Vec<Tm> = Vec::new();
    let mut effective_unions = 0;
    let mut derived_nonoperand_eq = false;
    let mut unequal_touched = false;
    let mut operand_pairs: BTreeSet<(Tm, Tm)> = BTreeSet::new();

    for (step, op) in case.ops.iter().enumerate() {
        match op {
            HOp::Add(t) => {
                let a = eg.add_expr(parse_tm::<L>(t, nm));
                ids.push(a);
                added.push(t.clone());
            }
            HOp::Union(i, j) => {
                let r = eg.union(&ids[*i], &ids[*j]);
                if r {
                    effective_unions += 1;
                }
                g.assert_eq(&added[*i], &added[*j]);
                operand_pairs.insert((added[*i].clone(), added[*j].clone()));
                operand_pairs.insert((added[*j].clone(), added[*i].clone()));
                // the asserted pair itself
                if dir == Dir::Complete && !eg.eq(&ids[*i], &ids[*j]) {
                    return Err(format!("step {step}: union(t{i},t{j}) returned but eq(t{i},t{j}) is false"));
                }
            }
        }
        if matches!(op, HOp::Add(_)) && step + 1 < case.ops.len() && matches!(case.ops[step + 1], HOp::Add(_)) {
            // compare after unions and at the end of a run of adds (adds alone change nothing for earlier terms)
            continue;
        }

        let subs = all_subterms(&added);
        // lookups
        let mut looked: Vec<(Tm, AppliedId)> = Vec::new();
        for s in &subs {
            match lookup_tm::<L, N>(&eg, s, nm) {
                Some(a) => looked.push((s.clone(), a)),
                None => {
                    if dir == Dir::Complete {
                        return Err(format!("step {step}: inserted (sub)term {} cannot be looked up", s.render(nm)));
                    }
                }
            }
        }
        let mut sound_check = |what: String, recheck: &dyn Fn(&Ground) -> Option<bool>| -> Result<(), String> {
            // the small pool did not derive it: decide at the proven bound
            if big.as_ref().map(|(s, _)| *s != step).unwrap_or(true) {
                let gb = escalate(case, step, n_big.max(n_small));
                if gb.too_big {
                    return Ok(());
                }
                big = Some((step, gb));
            }
            let gb = &big.as_ref().unwrap().1;
            match recheck(gb) {
                Some(false) => Err(format!("step {step}: {what} (pool {} and {})", n_small, gb.n)),
                _ => Ok(()),
            }
        };

        // pairs
        for (ia, (ta, a)) in looked.iter().enumerate() {
            for (tb, b) in looked.iter().skip(ia + 1) {
                for variant in 0..2 {
                    let (tb2, b2) = if variant == 0 {
                        (tb.clone(), b.clone())
                    } else {
                        // rotate the alphabet names of b
                        let al = 4u8;
                        let tb2 = tb.rename_all(&|n| if n < al { (n + 1) % al } else { n });
                        if &tb2 == tb {
                            continue;
                        }
                        match lookup_tm::<L, N>(&eg, &tb2, nm) {
                            Some(b2) => (tb2, b2),
                            None => {
                                if dir == Dir::Complete {
                                    return Err(format!(
                                        "step {step}: renamed copy {} of an inserted term cannot be looked up",
                                        tb2.render(nm)
                                    ));
                                }
                                continue;
                            }
                        }
                    };
                    let e = eg.eq(a, &b2);
                    let o = match g.eq_terms(ta, &tb2) {
                        Some(o) => o,
                        None => continue,
                    };
                    obs.cmp(1);
                    if o && !operand_pairs.contains(&(ta.clone(), tb2.clone())) {
                        derived_nonoperand_eq = true;
                    }
                    if !o && !e && effective_unions > 0 {
                        unequal_touched = true;
                    }
                    match dir {
                        Dir::Sound => {
                            if e && !o {
                                let (x, y) = (ta.clone(), tb2.clone());
                                sound_check(
                                    format!("e-graph reports {} = {} but the closure does not derive it", x.render(nm), y.render(nm)),
                                    &|gb| gb.eq_terms(&x, &y),
                                )?;
                            }
                        }
                        Dir::Complete => {
                            if o && !e {
                                return Err(format!(
                                    "step {step}: closure derives {} = {} but the e-graph reports them unequal",
                                    ta.render(nm),
                                    tb2.render(nm)
                                ));
                            }
                        }
                    }
                }
            }
        }

        // slots and symmetries of each (sub)term
        for (t, a) in &looked {
            let fv = t.fv();
            let back = slot_names(fv.iter().copied(), nm);
            let kept: BTreeSet<Name> = match a.slots().iter().map(|s| back.get(s).copied()).collect::<Option<BTreeSet<Name>>>() {
                Some(k) => k,
                None => {
                    return if dir == Dir::Sound {
                        Err(format!("step {step}: invocation of {} has a slot that is not a free name of the term: {:?}", t.render(nm), a))
                    } else {
                        Ok(())
                    };
                }
            };
            for x in &fv {
                let red = match g.redundant(t, *x) {
                    Some(r) => r,
                    None => continue,
                };
                obs.cmp(1);
                let dropped = !kept.contains(x);
                if red {
                    obs.label("redundancy");
                    derived_nonoperand_eq = true;
                }
                match dir {
                    Dir::Sound => {
                        if dropped && !red {
                            let (tt, xx) = (t.clone(), *x);
                            sound_check(
                                format!("class of {} dropped slot {} which the closure does not show redundant", t.render(nm), nm.slot(*x)),
                                &|gb| gb.redundant(&tt, xx),
                            )?;
                        }
                    }
                    Dir::Complete => {
                        if red && !dropped {
                            return Err(format!(
                                "step {step}: {} provably does not depend on {} but its class keeps the slot",
                                t.render(nm),
                                nm.slot(*x)
                            ));
                        }
                    }
                }
            }
            let keptv: Vec<Name> = kept.iter().copied().collect();
            if keptv.len() >= 2 && keptv.len() <= 4 {
                for p in perms_of(&keptv) {
                    if p == keptv {
                        continue;
                    }
                    let sigma: BTreeMap<Name, Name> = keptv.iter().copied().zip(p.iter().copied()).collect();
                    let o = match g.symmetric(t, &sigma) {
                        Some(o) => o,
                        None => continue,
                    };
                    let e = eg.eq(a, &a.apply_slotmap(&perm_slotmap(&sigma, nm)));
                    obs.cmp(1);
                    if o {
                        obs.label("symmetry");
                        derived_nonoperand_eq = true;
                        // order of sigma
                        let mut ord = 1;
                        let mut cur = sigma.clone();
                        while cur.iter().any(|(k, v)| k != v) && ord < 6 {
                            cur = cur.iter().map(|(k, v)| (*k, sigma[v])).collect();
                            ord += 1;
                        }
                        if ord >= 3 {
                            obs.label("symmetry-order>=3");
                        }
                    }
                    match dir {
                        Dir::Sound => {
                            if e && !o {
                                let (tt, ss) = (t.clone(), sigma.clone());
                                sound_check(
                                    format!("e-graph reports {} symmetric under {:?} but the closure does not", t.render(nm), sigma),
                                    &|gb| gb.symmetric(&tt, &ss),
                                )?;
                            }
                        }
                        Dir::Complete => {
                            if o && !e {
                                return Err(format!(
                                    "step {step}: closure derives the symmetry {:?} of {} but the e-graph does not report it",
                                    sigma.iter().map(|(k, v)| format!("{}->{}", nm.slot(*k), nm.slot(*v))).collect::<Vec<_>>(),
                                    t.render(nm)
                                ));
                            }
                        }
                    }
                }
            }
        }

        // derived totals (follow from C01 and C02 together; reported under the direction they contradict)
        if let Some(tot) = g.totals(&subs) {
            let pr = eg.progress();
            obs.cmp(3);
            let live = pr.number_of_live_classes;
            match dir {
                Dir::Sound => {
                    // fewer live classes than the closure has classes => something was equated that should not be
                    if live < tot.classes {
                        let ss = subs.clone();
                        let what = format!(
                            "totals: e-graph live classes {} slots {} symmetries {}; closure {} {} {}",
                            live, pr.sum_of_slots, pr.sum_of_symmetries, tot.classes, tot.sum_slots, tot.sum_syms
                        );
                        let l2 = live;
                        sound_check(what, &|gb| gb.totals(&ss).map(|t| !(l2 < t.classes)))?;
                    }
                }
                Dir::Complete => {
                    if live > tot.classes
                        || (live == tot.classes && pr.sum_of_slots > tot.sum_slots)
                        || (live == tot.classes && pr.sum_of_slots == tot.sum_slots && pr.sum_of_symmetries < tot.sum_syms)
                    {
                        return Err(format!(
                            "step {step}: totals: e-graph live classes {} slots {} symmetries {}; closure derives {} {} {}",
                            live, pr.sum_of_slots, pr.sum_of_symmetries, tot.classes, tot.sum_slots, tot.sum_syms
                        ));
                    }
                }
            }
        }
    }

    // thorough tier: executable guard of the pool-size argument (DESIGN 2.4): a sample of histories is re-decided with a pool
    // that is larger by two names; all answers on inserted (sub)terms must coincide.  A disagreement is a failed self-check
    // of the oracle (exit 2), never a violation.
    if crate::engine::is_thorough() && dir == Dir::Sound && case.render().len() % 8 == 0 {
        // the pool at which C01 verdicts are issued, against a pool that is larger by two names
        let g = escalate(case, case.ops.len(), n_big.max(n_small));
        let g2 = escalate(case, case.ops.len(), n_big.max(n_small) + 2);
        if !g2.too_big && !g.too_big {
            let subs = all_subterms(&added);
            for (i, a) in subs.iter().enumerate() {
                for b in subs.iter().skip(i + 1) {
                    if let (Some(x), Some(y)) = (g.eq_terms(a, b), g2.eq_terms(a, b)) {
                        obs.count("oracle-selfcheck-comparisons", 1);
                        if x != y {
                            return Err(format!("INCONCLUSIVE: oracle self-check: pools {} and {} disagree on {} = {}", g.n, g2.n, a.render(nm), b.render(nm)));
                        }
                    }
                }
                for x in a.fv() {
                    if let (Some(p), Some(q)) = (g.redundant(a, x), g2.redundant(a, x)) {
                        if p != q {
                            return Err(format!("INCONCLUSIVE: oracle self-check: pools {} and {} disagree on the redundancy of {} in {}", g.n, g2.n, nm.slot(x), a.render(nm)));
                        }
                    }
                }
            }
            obs.label("oracle-selfcheck");
        }
    }
    // classification
    if case.ops.iter().any(|o| matches!(o, HOp::Add(t) if t.kids().iter().any(|(b, _)| !b.is_empty()))) {
        obs.label("binder");
    }
    if terms.iter().any(|t| t.has_same_node_shadowing()) {
        obs.label("same-node-shadowing");
    }
    if effective_unions > 0 {
        obs.label("effective-union");
    }
    match dir {
        Dir::Sound => obs.nontrivial = effective_unions >= 1 && unequal_touched,
        Dir::Complete => obs.nontrivial = derived_nonoperand_eq,
    }
    Ok(())
}
