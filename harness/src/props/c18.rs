//! C18 — printing and parsing round-trip; parsing never panics.
use crate::engine::*;
use crate::langs::*;
use crate::tm::*;
use proptest::prelude::*;
use serde::{Deserialize, Serialize};
use slotted_egraphs::*;

// ---------------------------------------------------------------------------------------------
// model patterns: a Tm where op "?" (payload = variable name) is a pattern variable and op ":="
// (three children b, x, t) is the substitution form b[x := t]
// ---------------------------------------------------------------------------------------------

pub fn is_pvar(t: &Tm) -> bool {
    t.op == "?"
}
pub fn is_subst(t: &Tm) -> bool {
    t.op == ":="
}

fn slot(n: Name, nm: &Naming) -> Slot {
    crate::egx::slot_of(n, nm)
}

/// direct construction of nodes, independent of from_syntax
pub trait Build: Language {
    fn build(op: &str, slots: &[Slot], binders: &[Vec<Slot>], pays: &[&str]) -> Option<Self>;
}

fn aid() -> AppliedId {
    AppliedId::null()
}
fn b1(b: &[Slot]) -> Bind<AppliedId> {
    Bind { slot: b[0], elem: aid() }
}
fn b2(b: &[Slot]) -> Bind<Bind<AppliedId>> {
    Bind { slot: b[0], elem: Bind { slot: b[1], elem: aid() } }
}

impl Build for Core {
    fn build(op: &str, s: &[Slot], b: &[Vec<Slot>], pays: &[&str]) -> Option<Self> {
        let pay = pays.first().copied();
        Some(match op {
            "v" => Core::V(s[0]),
            "f2" => Core::F2(s[0], s[1]),
            "g3" => Core::G3(s[0], s[1], s[2]),
            "g4" => Core::G4(s[0], s[1], s[2], s[3]),
            "g5" => Core::G5(s[0], s[1], s[2], s[3], s[4]),
            "g6" => Core::G6(s[0], s[1], s[2], s[3], s[4], s[5]),
            "h3" => Core::H3(s[0], s[1], s[2]),
            "h4" => Core::H4(s[0], s[1], s[2], s[3]),
            "c0" => Core::C0(),
            "c1" => Core::C1(),
            "w" => Core::W(aid()),
            "p" => Core::P(aid(), aid()),
            "t3" => Core::T3(aid(), aid(), aid()),
            "q2" => Core::Q2(s[0], aid()),
            "lam" => Core::Lam(b1(&b[0])),
            "let" => Core::Let(b1(&b[0]), aid()),
            "sum2" => Core::Sum2(aid(), b2(&b[1])),
            "bb" => Core::Bb(b1(&b[0]), b1(&b[1])),
            "" => Core::Num(pay?.parse().ok()?),
            _ => return None,
        })
    }
}

impl Build for Wide {
    fn build(op: &str, s: &[Slot], b: &[Vec<Slot>], pays: &[&str]) -> Option<Self> {
        let pay = pays.first().copied();
        Some(match op {
            "v" => Wide::V(s[0]),
            "c0" => Wide::C0(),
            "wd" => Wide::Wd(aid(), aid(), aid(), aid(), aid(), aid(), aid(), aid(), aid(), aid()),
            "wm" => Wide::Wm(pay?.parse().ok()?, s[0], aid(), aid(), aid(), aid(), aid(), aid(), aid(), b1(b.last()?)),
            "" => Wide::Num(pay?.parse().ok()?),
            _ => return None,
        })
    }
}

impl Build for Arith {
    fn build(op: &str, s: &[Slot], b: &[Vec<Slot>], pays: &[&str]) -> Option<Self> {
        let pay = pays.first().copied();
        Some(match op {
            "var" => Arith::Var(s[0]),
            "lam" => Arith::Lam(b1(&b[0])),
            "app" => Arith::App(aid(), aid()),
            "let" => Arith::Let(b1(&b[0]), aid()),
            "add" => Arith::Add(aid(), aid()),
            "mul" => Arith::Mul(aid(), aid()),
            "" => {
                let p = pay?;
                match p.parse::<u32>() {
                    Ok(n) if n.to_string() == p => Arith::Number(n),
                    _ => Arith::Symbol(Symbol::from(p)),
                }
            }
            _ => return None,
        })
    }
}

impl Build for Sdql {
    fn build(op: &str, s: &[Slot], b: &[Vec<Slot>], _pays: &[&str]) -> Option<Self> {
        Some(match op {
            "var" => Sdql::Var(s[0]),
            "lambda" => Sdql::Lam(b1(&b[0])),
            "sing" => Sdql::Sing(aid(), aid()),
            "sum" => Sdql::Sum(aid(), b2(&b[1])),
            _ => return None,
        })
    }
}

impl Build for ArrayLang {
    fn build(op: &str, s: &[Slot], b: &[Vec<Slot>], pays: &[&str]) -> Option<Self> {
        let pay = pays.first().copied();
        Some(match op {
            "var" => ArrayLang::Var(s[0]),
            "lam" => ArrayLang::Lam(s[0], aid()),
            "app" => ArrayLang::App(aid(), aid()),
            "let" => ArrayLang::Let(b1(&b[0]), aid()),
            "" => {
                let p = pay?;
                match p.parse::<u32>() {
                    Ok(n) if n.to_string() == p => ArrayLang::Number(n),
                    _ => ArrayLang::Symbol(Symbol::from(p)),
                }
            }
            _ => return None,
        })
    }
}

impl Build for Pay {
    fn build(op: &str, s: &[Slot], b: &[Vec<Slot>], pays: &[&str]) -> Option<Self> {
        let pay = pays.first().copied();
        Some(match op {
            "at" => Pay::At(s[0]),
            "neg" => Pay::Neg(aid()),
            "tag" => Pay::Tag(pay?.parse().ok()?, s[0], aid()),
            "scope" => Pay::Scope(pay?.parse().ok()?, b1(&b[0])),
            "lbl" => Pay::Lbl(Symbol::from(pay?), pays.get(1)?.parse().ok()?, aid()),
            "pr" => Pay::Pr(pay?.parse().ok()?, pays.get(1)?.parse().ok()?),
            "" => {
                let p = pay?;
                if let Ok(i) = p.parse::<i64>() {
                    Pay::Lit(i)
                } else if let Ok(f) = p.parse::<bool>() {
                    Pay::Flag(f)
                } else {
                    Pay::Ch(p.parse::<char>().ok()?)
                }
            }
            _ => return None,
        })
    }
}

impl Build for Arith2 {
    fn build(op: &str, s: &[Slot], _b: &[Vec<Slot>], _pays: &[&str]) -> Option<Self> {
        Some(match op {
            "var" => Arith2::Var(s[0]),
            "f" => Arith2::F(aid(), aid()),
            "sub" => Arith2::Sub(aid(), aid()),
            "zero" => Arith2::Zero(),
            _ => return None,
        })
    }
}

pub fn build_pattern<L: Build>(t: &Tm, nm: &Naming) -> Result<Pattern<L>, String> {
    if is_pvar(t) {
        let Arg::P(n) = &t.args[0] else { return Err("bad pvar".into()) };
        return Ok(Pattern::PVar(n.clone()));
    }
    if is_subst(t) {
        let ks = t.kids();
        return Ok(Pattern::Subst(
            Box::new(build_pattern::<L>(ks[0].1, nm)?),
            Box::new(build_pattern::<L>(ks[1].1, nm)?),
            Box::new(build_pattern::<L>(ks[2].1, nm)?),
        ));
    }
    let mut slots = Vec::new();
    let mut binders: Vec<Vec<Slot>> = Vec::new();
    let mut pays: Vec<&str> = Vec::new();
    let mut kids = Vec::new();
    for a in &t.args {
        match a {
            Arg::S(n) => slots.push(slot(*n, nm)),
            Arg::P(p) => pays.push(p.as_str()),
            Arg::K(bs, k) => {
                binders.push(bs.iter().map(|b| slot(*b, nm)).collect());
                kids.push(build_pattern::<L>(k, nm)?);
            }
        }
    }
    let node = L::build(&t.op, &slots, &binders, &pays).ok_or_else(|| format!("cannot build {}", t.op))?;
    Ok(Pattern::ENode(node, kids))
}

pub fn build_rec<L: Build>(t: &Tm, nm: &Naming) -> Result<RecExpr<L>, String> {
    match build_pattern::<L>(t, nm)? {
        p @ Pattern::ENode(..) => Ok(pattern_to_re(&p_no_vars(&p)?)),
        _ => Err("not a term".into()),
    }
}

fn p_no_vars<L: Language>(p: &Pattern<L>) -> Result<Pattern<L>, String> {
    match p {
        Pattern::ENode(n, ks) => {
            let mut v = Vec::new();
            for k in ks {
                v.push(p_no_vars(k)?);
            }
            Ok(Pattern::ENode(n.clone(), v))
        }
        _ => Err("pattern variable in a term".into()),
    }
}

/// render a model pattern in the library's syntax
pub fn render_pat(t: &Tm, nm: &Naming) -> String {
    if is_pvar(t) {
        let Arg::P(n) = &t.args[0] else { unreachable!() };
        return format!("?{}", n);
    }
    if is_subst(t) {
        let ks = t.kids();
        return format!("{}[{} := {}]", render_pat(ks[0].1, nm), render_pat(ks[1].1, nm), render_pat(ks[2].1, nm));
    }
    let mut parts: Vec<String> = Vec::new();
    if !t.op.is_empty() {
        parts.push(t.op.clone());
    }
    for a in &t.args {
        match a {
            Arg::S(n) => parts.push(nm.slot(*n)),
            Arg::P(p) => parts.push(p.clone()),
            Arg::K(bs, k) => {
                for b in bs {
                    parts.push(nm.slot(*b));
                }
                parts.push(render_pat(k, nm));
            }
        }
    }
    if parts.len() == 1 {
        parts[0].clone()
    } else {
        format!("({})", parts.join(" "))
    }
}

/// generate a model pattern: like gen_tm but with pattern variables at leaves and substitution forms
pub fn gen_pat(sig: &LangSig, cfg: &GenCfg, src: &mut Src, depth: usize, allow_subst: bool) -> Tm {
    let k = src.pick(10);
    if depth > 0 && k < 3 {
        let names = ["x", "y", "body", "e1", "f"];
        return Tm { op: "?".into(), args: vec![Arg::P(names[src.pick(names.len())].to_string())] };
    }
    if allow_subst && depth < cfg.max_depth && k == 3 {
        let b = gen_pat(sig, cfg, src, depth + 1, allow_subst);
        let x = gen_pat(sig, cfg, src, depth + 2, allow_subst);
        let t = gen_pat(sig, cfg, src, depth + 2, allow_subst);
        return Tm { op: ":=".into(), args: vec![Arg::K(vec![], b), Arg::K(vec![], x), Arg::K(vec![], t)] };
    }
    // a node whose children are patterns
    let shallow = GenCfg { max_depth: 0, ..cfg.clone() };
    let ops: Vec<&OpSig> = sig.ops.iter().collect();
    let o = if depth >= cfg.max_depth {
        let leaves: Vec<&OpSig> = ops.iter().copied().filter(|o| o.is_leaf()).collect();
        leaves[src.pick(leaves.len())]
    } else {
        ops[src.pick(ops.len())]
    };
    let _ = shallow;
    let mut args = Vec::new();
    for f in &o.fields {
        match f {
            Field::Slot => args.push(Arg::S(src.pick(cfg.alphabet as usize) as Name)),
            Field::PayU32 => args.push(Arg::P(format!("{}", src.pick(1000)))),
            Field::PaySym => args.push(Arg::P(cfg.symbols[src.pick(cfg.symbols.len())].to_string())),
            Field::PayOther(v) => args.push(Arg::P(v[src.pick(v.len())].to_string())),
            Field::Kid(nb) => {
                let bs = (0..*nb).map(|_| src.pick(cfg.alphabet as usize) as Name).collect();
                args.push(Arg::K(bs, gen_pat(sig, cfg, src, depth + 1, allow_subst)));
            }
        }
    }
    Tm { op: o.name.to_string(), args }
}

#[derive(Clone, Debug, Serialize, Deserialize)]
pub struct RtCase {
    pub lang: LangId,
    pub naming: Naming,
    pub pat: Tm,
    pub is_term: bool,
}

fn rt_langs() -> Vec<LangId> {
    vec![LangId::Core, LangId::Arith, LangId::Sdql, LangId::ArrayLang, LangId::Arith2, LangId::Pay, LangId::Wide]
}

fn run_rt(c: &RtCase, obs: &mut Obs) -> Result<(), String> {
    match c.lang {
        LangId::Core => run_rt_l::<Core>(c, obs),
        LangId::Arith => run_rt_l::<Arith>(c, obs),
        LangId::Sdql => run_rt_l::<Sdql>(c, obs),
        LangId::ArrayLang => run_rt_l::<ArrayLang>(c, obs),
        LangId::Arith2 => run_rt_l::<Arith2>(c, obs),
        LangId::Pay => run_rt_l::<Pay>(c, obs),
        LangId::Wide => run_rt_l::<Wide>(c, obs),
        _ => Err("language without direct constructors".into()),
    }
}

fn run_rt_l<L: Build>(c: &RtCase, obs: &mut Obs) -> Result<(), String> {
    let expected_text = render_pat(&c.pat, &c.naming);
    if c.is_term {
        let re: RecExpr<L> = build_rec::<L>(&c.pat, &c.naming)?;
        let txt = re.to_string();
        if txt != expected_text {
            return Err(format!("term prints as {txt}, model prints {expected_text}"));
        }
        let back = RecExpr::<L>::parse(&txt).map_err(|e| format!("printed term {txt} does not parse: {e:?}"))?;
        if back != re {
            return Err(format!("parse(print(t)) != t for {txt}: got {back}"));
        }
        // a term is also a pattern
        let pb = Pattern::<L>::parse(&txt).map_err(|e| format!("printed term {txt} does not parse as a pattern: {e:?}"))?;
        if pb != re_to_pattern(&re) {
            return Err(format!("Pattern::parse(print(t)) differs for {txt}"));
        }
        obs.cmp(2);
        if c.pat.subterms().iter().any(|s| s.kids().iter().any(|(b, _)| !b.is_empty())) {
            obs.label("binder");
            obs.nontrivial = true;
        }
    } else {
        let p: Pattern<L> = build_pattern::<L>(&c.pat, &c.naming)?;
        let txt = p.to_string();
        if txt != expected_text {
            return Err(format!("pattern prints as {txt}, model prints {expected_text}"));
        }
        let back = Pattern::<L>::parse(&txt).map_err(|e| format!("printed pattern {txt} does not parse: {e:?}"))?;
        if back != p {
            return Err(format!("parse(print(p)) != p for {txt}: got {back}"));
        }
        obs.cmp(1);
        let has_subst = c.pat.subterms().iter().any(|s| is_subst(s));
        if has_subst {
            obs.label("subst");
        }
        if has_subst || c.pat.subterms().iter().any(|s| s.kids().iter().any(|(b, _)| !b.is_empty())) {
            obs.nontrivial = true;
        }
    }
    Ok(())
}

fn rt_strategy() -> BoxedStrategy<RtCase> {
    (proptest::collection::vec(any::<u16>(), 0..80), any::<u16>(), any::<u16>())
        .prop_map(|(ch, a, b)| {
            let langs = rt_langs();
            let lang = langs[(a as usize * langs.len()) >> 16];
            let sig = lang.sig();
            let namings = [Naming::Alpha, Naming::Numeric, Naming::FreshLike, Naming::Table(vec!["07".into(), "x_y".into(), "f".into(), "+1".into(), "a.b".into(), "Z".into()])];
            let naming = namings[(b as usize & 0xff) * namings.len() >> 8].clone();
            let is_term = (b >> 8) & 1 == 0;
            let mut src = Src::new(&ch);
            let cfg = GenCfg { alphabet: 6, max_depth: 4, avoid_same_node_shadowing: false, payload_u32_max: 1000, symbols: vec!["s", "t", "map", "x1", "foo-bar", "<=", "a,b", "\"x\"", "\"x", "a\"b", "'q'", "#1", "a;b", "\u{3bb}", "\u{65e5}\u{672c}", "\\n", "x:=y"], ..GenCfg::default() };
            let pat = if is_term { gen_tm(&sig, &cfg, &mut src, 0) } else { gen_pat(&sig, &cfg, &mut src, 0, true) };
            RtCase { lang, naming, pat, is_term }
        })
        .boxed()
}

// ---------------------------------------------------------------------------------------------
// sessions: several languages parsed and printed in ONE thread (every other stage gives each case a thread of its own, so
// state the parser keeps per thread - caches, interners - never sees a second language)
// ---------------------------------------------------------------------------------------------

#[derive(Clone, Debug, Serialize, Deserialize)]
pub enum SessionStep {
    RoundTrip(RtCase),
    Text(TextCase),
}

#[derive(Clone, Debug, Serialize, Deserialize)]
pub struct SessionCase {
    pub steps: Vec<SessionStep>,
}

/// what a parse of `text` looks like from outside: printed values of the three parsers, or their rejection
fn parse_view<L: Language>(text: &str) -> (Option<String>, Option<String>, Option<String>) {
    (Pattern::<L>::parse(text).ok().map(|p| p.to_string()), RecExpr::<L>::parse(text).ok().map(|p| p.to_string()), MultiPattern::<L>::parse(text).ok().map(|p| p.to_string()))
}

fn run_session(c: &SessionCase, obs: &mut Obs) -> Result<(), String> {
    let mut langs = std::collections::BTreeSet::new();
    for (i, st) in c.steps.iter().enumerate() {
        match st {
            SessionStep::RoundTrip(rc) => {
                langs.insert(rc.lang);
                let mut o = Obs::default();
                run_rt(rc, &mut o).map_err(|e| format!("step {i} (after {} earlier steps in the same thread): {e}", i))?;
                obs.cmp(o.comparisons);
            }
            SessionStep::Text(tc) => {
                langs.insert(tc.lang);
                let mut o = Obs::default();
                run_text(tc, &mut o).map_err(|e| format!("step {i}: {e}"))?;
                // the verdict on a text does not depend on what the thread parsed before: same view from a fresh thread
                let here = crate::with_lang!(tc.lang, L => parse_view::<L>(&tc.text));
                let tc2 = tc.clone();
                let fresh = std::thread::Builder::new()
                    .stack_size(16 << 20)
                    .spawn(move || crate::with_lang!(tc2.lang, L => parse_view::<L>(&tc2.text)))
                    .map_err(|e| e.to_string())?
                    .join()
                    .map_err(|_| format!("step {i}: parsing {:?} panicked in a fresh thread", tc.text))?;
                obs.cmp(3);
                if here != fresh {
                    return Err(format!("step {i}: [{:?}] {:?} parses to {:?} after the earlier steps of this thread, but to {:?} in a fresh thread", tc.lang, tc.text, here, fresh));
                }
            }
        }
    }
    if langs.len() >= 2 {
        obs.label("two-or-more-languages-in-one-thread");
        obs.nontrivial = true;
    }
    Ok(())
}

fn session_strategy() -> BoxedStrategy<SessionCase> {
    let step = crate::one_of![
        3 => rt_strategy().prop_map(SessionStep::RoundTrip),
        2 => text_strategy().prop_map(SessionStep::Text),
    ];
    proptest::collection::vec(step, 2..10).prop_map(|steps| SessionCase { steps }).boxed()
}

// ---------------------------------------------------------------------------------------------
// multi-patterns (value not constructible from outside: text -> parse -> print must reproduce the text)
// ---------------------------------------------------------------------------------------------

#[derive(Clone, Debug, Serialize, Deserialize)]
pub struct MpCase {
    pub lang: LangId,
    /// (var, node pattern of depth one whose children are all pattern variables)
    pub eqs: Vec<(String, Tm)>,
}

fn mp_text(c: &MpCase) -> String {
    c.eqs.iter().map(|(v, t)| format!("?{} == {}", v, render_pat(t, &Naming::Alpha))).collect::<Vec<_>>().join(", ")
}

fn run_mp(c: &MpCase, obs: &mut Obs) -> Result<(), String> {
    crate::with_lang!(c.lang, L => run_mp_l::<L>(c, obs))
}

fn run_mp_l<L: Language>(c: &MpCase, obs: &mut Obs) -> Result<(), String> {
    let txt = mp_text(c);
    let mp = MultiPattern::<L>::parse(&txt).map_err(|e| format!("multi-pattern {txt} does not parse: {e:?}"))?;
    let printed = mp.to_string();
    if printed != txt {
        return Err(format!("multi-pattern {txt} prints back as {printed}"));
    }
    let mp2 = MultiPattern::<L>::parse(&printed).map_err(|e| format!("printed multi-pattern {printed} does not parse: {e:?}"))?;
    if mp2.to_string() != printed {
        return Err("print(parse(print)) unstable".into());
    }
    obs.cmp(2);
    obs.nontrivial = c.eqs.len() >= 2 || c.eqs.iter().any(|(_, t)| !t.kids().is_empty());
    Ok(())
}

fn mp_strategy() -> BoxedStrategy<MpCase> {
    (proptest::collection::vec(any::<u16>(), 0..60), any::<u16>())
        .prop_map(|(ch, a)| {
            let langs = [LangId::Arith2, LangId::Core, LangId::Lambda, LangId::Sdql, LangId::Arith];
            let lang = langs[(a as usize * langs.len()) >> 16];
            let sig = lang.sig();
            let mut src = Src::new(&ch);
            let n = 1 + src.pick(3);
            let vars = ["x", "a", "b", "c"];
            let mut eqs = Vec::new();
            for _ in 0..n {
                let v = vars[src.pick(vars.len())].to_string();
                let o = &sig.ops[src.pick(sig.ops.len())];
                let mut args = Vec::new();
                for f in &o.fields {
                    match f {
                        Field::Slot => args.push(Arg::S(src.pick(4) as Name)),
                        Field::PayU32 => args.push(Arg::P(format!("{}", src.pick(50)))),
                        Field::PaySym => args.push(Arg::P("sym".into())),
                        Field::PayOther(v) => args.push(Arg::P(v[src.pick(v.len())].to_string())),
                        Field::Kid(nb) => {
                            let bs = (0..*nb).map(|_| src.pick(4) as Name).collect();
                            let kv = vars[src.pick(vars.len())].to_string();
                            args.push(Arg::K(bs, Tm { op: "?".into(), args: vec![Arg::P(kv)] }));
                        }
                    }
                }
                eqs.push((v, Tm { op: o.name.to_string(), args }));
            }
            MpCase { lang, eqs }
        })
        .boxed()
}

// ---------------------------------------------------------------------------------------------
// arbitrary text: no panic; Ok(v) => v well formed
// ---------------------------------------------------------------------------------------------

#[derive(Clone, Debug, Serialize, Deserialize)]
pub struct TextCase {
    pub lang: LangId,
    pub text: String,
}

fn well_formed<L: Language>(p: &Pattern<L>) -> Result<(), String> {
    match p {
        Pattern::ENode(n, ks) => {
            if ks.len() != n.applied_id_occurrences().len() {
                return Err(format!("node {:?} takes {} children but has {}", n, n.applied_id_occurrences().len(), ks.len()));
            }
            for k in ks {
                well_formed(k)?;
            }
            Ok(())
        }
        Pattern::PVar(_) => Ok(()),
        Pattern::Subst(b, x, t) => {
            well_formed(b)?;
            well_formed(x)?;
            well_formed(t)
        }
    }
}

/// classification only: does the text split into tokens (every '$' / '?' is followed by a name)?
fn tokenizes(text: &str) -> bool {
    let cs: Vec<char> = text.chars().collect();
    for (i, c) in cs.iter().enumerate() {
        if *c == '$' || *c == '?' {
            // only relevant at token start
            let at_start = i == 0 || cs[i - 1].is_whitespace() || "()[]".contains(cs[i - 1]);
            if at_start {
                match cs.get(i + 1) {
                    None => return false,
                    Some(n) if n.is_whitespace() || "()[]".contains(*n) => return false,
                    _ => {}
                }
            }
        }
    }
    !text.trim().is_empty()
}

pub fn check_text<L: Language>(text: &str) -> Result<(bool, bool), String> {
    let mut any_ok = false;
    let mut tokenizes_invalid = false;
    match Pattern::<L>::parse(text) {
        Ok(p) => {
            any_ok = true;
            well_formed(&p).map_err(|e| format!("Pattern::parse({:?}) accepted an ill-formed value: {e}", text))?;
            // accepted text must survive print/parse
            let printed = p.to_string();
            match Pattern::<L>::parse(&printed) {
                Ok(p2) => {
                    if p2 != p {
                        return Err(format!("accepted text {:?} prints as {:?} which parses to a different pattern", text, printed));
                    }
                }
                Err(_) => {
                    // only payload values that print ambiguously may do this; the statement excludes them
                }
            }
        }
        Err(_) => tokenizes_invalid = tokenizes(text),
    }
    match RecExpr::<L>::parse(text) {
        Ok(r) => {
            any_ok = true;
            well_formed(&re_to_pattern(&r)).map_err(|e| format!("RecExpr::parse({:?}) accepted an ill-formed value: {e}", text))?;
        }
        Err(_) => {}
    }
    match MultiPattern::<L>::parse(text) {
        Ok(mp) => {
            // the only public view on a multi-pattern is its printed form: printing must work (it walks the node's syntax and
            // takes one child per argument position), every printed clause must be a well-formed node pattern whose children
            // are pattern variables, and no written argument may have disappeared
            let printed = mp.to_string();
            for clause in printed.split(", ?") {
                let Some((_, rhs)) = clause.split_once(" == ") else { continue };
                if let Ok(p) = Pattern::<L>::parse(rhs) {
                    well_formed(&p).map_err(|e| format!("MultiPattern::parse({:?}) accepted an ill-formed value (printed {:?}): {e}", text, printed))?;
                }
            }
            let count = |s: &str| s.split(|c: char| c.is_whitespace() || "()[],".contains(c)).filter(|w| !w.is_empty() && *w != "==" && *w != ":=").count();
            if count(&printed) < count(text) {
                return Err(format!("MultiPattern::parse({:?}) accepted the text but the value prints as {:?}: a written argument was dropped (the node has fewer children than written)", text, printed));
            }
            if !printed.is_empty() {
                any_ok = true;
            }
        }
        Err(_) => {}
    }
    Ok((any_ok, tokenizes_invalid))
}

pub fn run_text_case(c: &TextCase, obs: &mut Obs) -> Result<(), String> {
    run_text(c, obs)
}

fn run_text(c: &TextCase, obs: &mut Obs) -> Result<(), String> {
    let (ok, tok_invalid) = crate::with_lang!(c.lang, L => check_text::<L>(&c.text))?;
    obs.cmp(3);
    if ok {
        obs.label("accepted");
    }
    if tok_invalid {
        obs.label("tokenizes-but-invalid");
    }
    obs.nontrivial = tok_invalid;
    Ok(())
}

pub const SEED_TEXTS: &[&str] = &[
    "(app (lam $x (var $x)) (lam $y (var $y)))",
    "(let $x (app ?a ?b) ?e)",
    "?body[(var $x) := ?e]",
    "(lam $y ?b[(var $x) := ?e][(var $y) := (var $z)])",
    "?x == (f ?a ?b), ?b == zero",
    "(sum ?r $k $v ?b)",
    "(sum2 (v $a) $x $y (f2 $x $y))",
    "(add 1 (mul x 22))",
    "zero",
    "(g3 $1 $2 $3)",
    "(sub (var $x) (var $x))",
    "(lam $f0 (v $f0))",
    "(f2 $3333333333 $f1073741824)",
    "(var $1073741823)",
];

fn text_strategy() -> BoxedStrategy<TextCase> {
    let toks = vec![
        "(", ")", "[", "]", ":=", " ", "?x", "?b", "$a", "$1", "$f0", "$4294967295", "$f1073741823", "$1073741824", "$", "?", "lam", "app", "var", "let", "sum", "sum2", "f2", "v", "zero", "sub", "f", "add", "1", "22", "x", "==", ",", "\u{e9}", "\t", "$x$y", "((", "))",
    ];
    let seeds: Vec<String> = SEED_TEXTS.iter().map(|s| s.to_string()).collect();
    let seeds2 = seeds.clone();
    let seeds3 = seeds.clone();
    let seeds3_b = seeds.clone();
    let langs = vec![LangId::Lambda, LangId::Arith, LangId::Arith2, LangId::Core, LangId::Sdql, LangId::ArrayLang, LangId::Fgh, LangId::Fp];
    let text = crate::one_of![ 
        // token soup
        3 => proptest::collection::vec(proptest::sample::select(toks.clone()), 0..14).prop_map(|v| v.join(" ")),
        2 => proptest::collection::vec(proptest::sample::select(toks), 0..14).prop_map(|v| v.concat()),
        // truncation of a valid text
        3 => (proptest::sample::select(seeds), any::<u16>()).prop_map(|(s, k)| {
            let chars: Vec<char> = s.chars().collect();
            let n = (k as usize * (chars.len() + 1)) >> 16;
            chars[..n].iter().collect()
        }),
        // splice of two valid texts
        2 => (proptest::sample::select(seeds2.clone()), proptest::sample::select(seeds2), any::<u16>(), any::<u16>()).prop_map(|(a, b, i, j)| {
            let ca: Vec<char> = a.chars().collect();
            let cb: Vec<char> = b.chars().collect();
            let n = (i as usize * (ca.len() + 1)) >> 16;
            let m = (j as usize * (cb.len() + 1)) >> 16;
            ca[..n].iter().chain(cb[m..].iter()).collect()
        }),
        // point mutations of a valid text
        3 => (proptest::sample::select(seeds3), proptest::collection::vec((any::<u16>(), any::<u8>(), "[ -~]"), 1..4)).prop_map(|(s, muts)| {
            let mut chars: Vec<char> = s.chars().collect();
            for (pos, kind, ch) in muts {
                if chars.is_empty() { break; }
                let p = (pos as usize * chars.len()) >> 16;
                match kind % 3 {
                    0 => { chars.remove(p); }
                    1 => { chars.insert(p, ch.chars().next().unwrap_or(' ')); }
                    _ => { chars[p] = ch.chars().next().unwrap_or(' '); }
                }
            }
            chars.into_iter().collect()
        }),
        1 => "\\PC{0,20}",
        1 => "[()\\[\\] $?:=a-z0-9]{0,24}",
    ];
    // near misses of multi-patterns: a well-formed multi-pattern in which one argument position of a clause holds something
    // else than a pattern variable (a constant, a nested node, a substitution form), or an argument is missing / surplus
    let near = (mp_strategy(), any::<u16>(), any::<u16>()).prop_map(|(c, k, r)| {
        let txt = mp_text(&c);
        let toks: Vec<&str> = txt.split(' ').collect();
        // argument positions: tokens that start with '?' and are not followed by "=="
        let args: Vec<usize> = (0..toks.len()).filter(|i| toks[*i].starts_with('?') && toks.get(i + 1) != Some(&"==") && *i > 0 && toks[i - 1] != ",").collect();
        let consts: &[&str] = match c.lang {
            LangId::Arith2 => &["zero", "(var $x)", "(sub ?a ?b)"],
            LangId::Core => &["c0", "1", "(v $x)", "(w ?a)"],
            LangId::Lambda => &["(var $x)", "(app ?a ?b)"],
            LangId::Sdql => &["(var $x)", "(sing ?a ?b)"],
            _ => &["1", "s", "(var $x)", "(add ?a ?b)"],
        };
        let mut out: Vec<String> = toks.iter().map(|t| t.to_string()).collect();
        if !args.is_empty() {
            let i = args[(k as usize * args.len()) >> 16];
            let body = toks[i].trim_end_matches(')');
            let tail = &toks[i][body.len()..];
            let repl: String = match r % 5 {
                0 | 1 => consts[(r as usize / 5) % consts.len()].to_string(),
                2 => format!("{}[?c := ?d]", body),
                3 => String::new(),
                _ => format!("{} {}", body, body),
            };
            out[i] = format!("{}{}", repl, tail);
        }
        TextCase { lang: c.lang, text: out.join(" ") }
    });
    // one node with very many arguments (more bare identifiers than any machine word has bits), also nested once
    let long = (proptest::sample::select(vec![LangId::Arith, LangId::Core, LangId::Lambda, LangId::Pay, LangId::ArrayLang]), 0usize..6, proptest::sample::select(vec![7usize, 8, 9, 31, 32, 33, 63, 64, 65, 66, 100, 130, 300]), proptest::sample::select(vec!["x", "1", "?a", "$a", "zero", "c0", "(v $a)"]), any::<bool>()).prop_map(|(lang, opi, n, tok, nest)| {
        let ops = ["app", "add", "p", "tag", "f", "lam"];
        let inner = format!("({} {})", ops[opi], vec![tok; n].join(" "));
        TextCase { lang, text: if nest { format!("({} {} {})", ops[(opi + 1) % ops.len()], inner, tok) } else { inner } }
    });
    // nodes of operators with 10 / 11 argument positions (more than the 8 bits of the parser's payload mask): well-formed
    // except for one position that holds something that is not a term, is missing, or is surplus
    let wide = (any::<bool>(), proptest::collection::vec(proptest::sample::select(vec!["c0", "1", "(v $a)", "?a", "(wd c0 c0 c0 c0 c0 c0 c0 c0 c0 c0)"]), 10), 0usize..11, proptest::sample::select(vec!["zzz", "9x", "$a", "", "c0 c0", "wd", "(v)", "?", "c0"])).prop_map(|(wm, args, pos, bad)| {
        let mut a: Vec<String> = args.iter().map(|s| s.to_string()).collect();
        if wm {
            // (wm <u32> $slot k1..k7 $bound k8)
            a.truncate(8);
            let mut parts: Vec<String> = vec!["7".into(), "$s".into()];
            parts.extend(a[..7].iter().cloned());
            parts.push("$b".into());
            parts.push(a[7].clone());
            let pos = pos.min(parts.len() - 1);
            parts[pos] = bad.to_string();
            TextCase { lang: LangId::Wide, text: format!("(wm {})", parts.join(" ")) }
        } else {
            if pos < a.len() {
                a[pos] = bad.to_string();
            } else {
                a.push(bad.to_string());
            }
            TextCase { lang: LangId::Wide, text: format!("(wd {})", a.join(" ")) }
        }
    });
    // a tokenizer error (a sigil without a name) followed by a long tail with multi-byte characters at every offset: error
    // values and messages are built from the rest of the input
    let sigil_tail = (proptest::sample::select(vec![LangId::Lambda, LangId::Arith, LangId::Core]), proptest::sample::select(seeds3_b.clone()), any::<u16>(), proptest::sample::select(vec!["$ ", "$)", "? ", "?]", "$", "?("]), 0usize..70, proptest::sample::select(vec!["\u{e9}", "\u{65e5}\u{672c}", "\u{1f600}", "\u{3bb}x"]), 0usize..40).prop_map(|(lang, seed, cut, sig, pad, mb, pad2)| {
        let chars: Vec<char> = seed.chars().collect();
        let n = (cut as usize * (chars.len() + 1)) >> 16;
        let head: String = chars[..n].iter().collect();
        TextCase { lang, text: format!("{}{}{}{}{}{}", head, sig, "x".repeat(pad), mb, " y".repeat(pad2 / 2), mb) }
    });
    crate::one_of![
        8 => (proptest::sample::select(langs), text).prop_map(|(lang, text)| TextCase { lang, text }),
        2 => near,
        1 => long,
        1 => wide,
        1 => sigil_tail,
    ]
    .boxed()
}

pub fn property(tier: Tier) -> Property {
    let stages: Vec<Box<dyn DynStage>> = vec![
        Box::new(Stage {
            name: "roundtrip",
            source: random(rt_strategy, tier.pick(40_000, 600_000)),
            run: run_rt,
            panic_is_violation: true,
            render: |c: &RtCase| format!("[{:?}] {} {}", c.lang, if c.is_term { "term" } else { "pattern" }, render_pat(&c.pat, &c.naming)),
            rule: "terms and patterns (pattern variables, nested substitution forms in every position) of 6 languages (u32, Symbol, i64, bool, char payloads; a payload next to a slot and a bound child) built with the enum constructors directly (not through from_syntax), numeric / textual / f<n> / odd slot names; print then parse must give an equal value; non-trivial = contains a binder or a substitution form; distinct by rendered value",
            case_timeout_s: 60,
            exhaustive: false,
        }),
        Box::new(Stage {
            name: "multipattern",
            source: random(mp_strategy, tier.pick(10_000, 100_000)),
            run: run_mp,
            panic_is_violation: true,
            render: |c: &MpCase| format!("[{:?}] {}", c.lang, mp_text(c)),
            rule: "multi-patterns of 1-3 equations written in the printer's format; parse then print must reproduce the text; non-trivial = at least two equations or a node with children",
            case_timeout_s: 60,
            exhaustive: false,
        }),
        Box::new(Stage {
            name: "arbitrary-text",
            source: random(text_strategy, tier.pick(60_000, 1_500_000)),
            run: run_text,
            panic_is_violation: true,
            render: |c: &TextCase| format!("[{:?}] {:?}", c.lang, c.text),
            rule: "token soup, truncations, splices and point mutations of valid texts, random printable strings, near misses of multi-patterns, single nodes with 7-300 arguments, fed to RecExpr::parse, Pattern::parse and MultiPattern::parse of 8 languages; no panic, accepted values well formed; non-trivial = the text tokenizes but is rejected by the parser; distinct by text",
            case_timeout_s: 60,
            exhaustive: false,
        }),
        Box::new(Stage {
            name: "session",
            source: random(session_strategy, tier.pick(12_000, 200_000)),
            run: run_session,
            panic_is_violation: true,
            render: |c: &SessionCase| {
                c.steps
                    .iter()
                    .map(|s| match s {
                        SessionStep::RoundTrip(c) => format!("roundtrip [{:?}] {}", c.lang, render_pat(&c.pat, &c.naming)),
                        SessionStep::Text(c) => format!("parse [{:?}] {:?}", c.lang, c.text),
                    })
                    .collect::<Vec<_>>()
                    .join(" ; ")
            },
            rule: "2-9 steps in ONE thread, each a round-trip of a generated term / pattern or the parsing of an arbitrary text, in randomly chosen languages (the same spelling is a term of one language and a payload or nothing in another): every round-trip must hold and every text must get the verdict and printed value it gets in a fresh thread; non-trivial = at least two languages in the thread; distinct by rendered steps",
            case_timeout_s: 60,
            exhaustive: false,
        }),
    ];
    Property {
        id: "C18", scale: tier.pick(1, 1),
        stages,
        assumptions: vec!["payload values are restricted to spellings that are not accepted by an earlier payload variant and contain no whitespace or brackets (as the statement allows)".into()],
    }
}
