//! C10 — class symmetries are exactly the generated permutation group.
use super::closure::{run_closure, Dir};
use crate::egx::*;
use crate::engine::*;
use crate::hist::*;
use crate::langs::*;
use crate::tm::*;
use proptest::prelude::*;
use serde::{Deserialize, Serialize};
use slotted_egraphs::verif_hooks::VerifGroup;
use slotted_egraphs::*;
use std::collections::BTreeSet;
use std::sync::Arc;

pub type P = Vec<u8>;

fn compose(a: &P, b: &P) -> P {
    // first a then b
    a.iter().map(|x| b[*x as usize]).collect()
}

pub fn closure(k: usize, gens: &[P]) -> BTreeSet<P> {
    let id: P = (0..k as u8).collect();
    let mut set: BTreeSet<P> = BTreeSet::new();
    set.insert(id.clone());
    let mut frontier = vec![id];
    while let Some(p) = frontier.pop() {
        for g in gens {
            let q = compose(&p, g);
            if set.insert(q.clone()) {
                frontier.push(q);
            }
        }
    }
    set
}

pub fn all_perms_k(k: usize) -> Vec<P> {
    let v: Vec<u8> = (0..k as u8).collect();
    perms(&v)
}

fn orbit_bf(k: usize, gens: &[P], x: u8) -> BTreeSet<u8> {
    let mut o = BTreeSet::new();
    o.insert(x);
    let mut frontier = vec![x];
    while let Some(y) = frontier.pop() {
        for g in gens {
            let z = g[y as usize];
            if o.insert(z) {
                frontier.push(z);
            }
        }
    }
    let _ = k;
    o
}

/// the slots standing for points 0..k: a mix of kinds, so that the internal slot order differs from the point order
fn point_slots(k: usize) -> Vec<Slot> {
    let all = vec![Slot::numeric(7), Slot::named("x"), Slot::numeric(2), Slot::named("b"), Slot::numeric(40), Slot::named("a")];
    all[..k].to_vec()
}

fn to_slotmap(p: &P, s: &[Slot]) -> SlotMap {
    p.iter().enumerate().map(|(i, j)| (s[i], s[*j as usize])).collect()
}

fn from_slotmap(m: &SlotMap, s: &[Slot]) -> Option<P> {
    let mut out = Vec::new();
    for x in s {
        let y = m.get(*x)?;
        out.push(s.iter().position(|z| *z == y)? as u8);
    }
    Some(out)
}

#[derive(Clone, Debug, Serialize, Deserialize, PartialEq, Eq)]
pub struct GroupCase {
    pub k: u8,
    pub gens: Vec<P>,
}

fn group_agrees(g: &VerifGroup, k: usize, gens: &[P], s: &[Slot], what: &str) -> Result<u64, String> {
    let cl = closure(k, gens);
    let mut cmp = 0u64;
    for p in all_perms_k(k) {
        let c = g.contains(&to_slotmap(&p, s));
        cmp += 1;
        if c != cl.contains(&p) {
            return Err(format!("{what}: contains({:?}) = {}, brute-force closure of {:?} says {}", p, c, gens, cl.contains(&p)));
        }
    }
    let ap = g.all_perms();
    let mut seen = BTreeSet::new();
    for m in &ap {
        let p = from_slotmap(m, s).ok_or_else(|| format!("{what}: all_perms contains a map that is not a permutation of the points: {:?}", m))?;
        if !seen.insert(p.clone()) {
            return Err(format!("{what}: all_perms lists {:?} twice", p));
        }
    }
    if seen != cl {
        return Err(format!("{what}: all_perms has {} elements, closure of {:?} has {}", seen.len(), gens, cl.len()));
    }
    if g.count() != cl.len() {
        return Err(format!("{what}: count() = {}, closure of {:?} has {} elements", g.count(), gens, cl.len()));
    }
    if g.is_trivial() != (cl.len() == 1) {
        return Err(format!("{what}: is_trivial() = {} but the closure has {} elements", g.is_trivial(), cl.len()));
    }
    for x in 0..k as u8 {
        let o: BTreeSet<u8> = g.orbit(s[x as usize]).iter().map(|y| s.iter().position(|z| z == y).unwrap() as u8).collect();
        if o != orbit_bf(k, gens, x) {
            return Err(format!("{what}: orbit({x}) = {:?}, brute force {:?} for generators {:?}", o, orbit_bf(k, gens, x), gens));
        }
    }
    // the reported generators generate the same group
    let gg: Vec<P> = g.generators().iter().map(|m| from_slotmap(m, s).unwrap()).collect();
    if closure(k, &gg) != cl {
        return Err(format!("{what}: generators() {:?} generate a different group than {:?}", gg, gens));
    }
    Ok(cmp + 4 + k as u64)
}

fn run_direct(c: &GroupCase, obs: &mut Obs) -> Result<(), String> {
    let k = c.k as usize;
    let s = point_slots(k);
    let omega: SmallHashSet<Slot> = s.iter().copied().collect();
    let mk = |gens: &[P]| VerifGroup::new(&omega, gens.iter().map(|p| to_slotmap(p, &s)).collect());
    let g = mk(&c.gens);
    let mut cmp = group_agrees(&g, k, &c.gens, &s, "Group::new")?;
    // add_set: every split of the generator list
    for j in 0..=c.gens.len() {
        let (a, b) = c.gens.split_at(j);
        let mut g = mk(a);
        let before = closure(k, a).len();
        let grew = g.add_set(b.iter().map(|p| to_slotmap(p, &s)).collect());
        let after = closure(k, &c.gens).len();
        cmp += 1;
        if grew != (after > before) {
            return Err(format!("add_set({:?}) on the group of {:?} returned {}, but the closure {} from {} to {}", b, a, grew, if after > before { "grows" } else { "stays" }, before, after));
        }
        cmp += group_agrees(&g, k, &c.gens, &s, "after add_set")?;
        // adding elements that are already members reports no growth
        let members: Vec<P> = closure(k, &c.gens).into_iter().take(3).collect();
        if g.add_set(members.iter().map(|p| to_slotmap(p, &s)).collect()) {
            return Err(format!("add_set of members {:?} reported growth for the group of {:?}", members, c.gens));
        }
    }
    obs.cmp(cmp);
    let n = closure(k, &c.gens).len();
    let full: usize = (1..=k).product();
    obs.nontrivial = n > 1 && n < full;
    match n {
        1 => obs.label("order-1"),
        _ if n == full => obs.label("full-symmetric-group"),
        2..=3 => obs.label("order-2..3"),
        4..=8 => obs.label("order-4..8"),
        9..=24 => obs.label("order-9..24"),
        _ => obs.label("order>24"),
    }
    Ok(())
}

pub fn leaf_term(k: usize, p: &P) -> Tm {
    let op = ["", "v", "f2", "g3", "g4", "g5", "g6"][k];
    Tm::leaf(op, &p.iter().map(|x| *x as Name).collect::<Vec<_>>())
}

fn run_egraph(c: &GroupCase, obs: &mut Obs) -> Result<(), String> {
    let k = c.k as usize;
    let nm = Naming::Alpha;
    let mut eg: EGraph<Core> = EGraph::default();
    let id: P = (0..k as u8).collect();
    let base = eg.add_expr(parse_tm::<Core>(&leaf_term(k, &id), &nm));
    for g in &c.gens {
        let b = eg.add_expr(parse_tm::<Core>(&leaf_term(k, g), &nm));
        eg.union(&base, &b);
    }
    let cl = closure(k, &c.gens);
    let base = lookup_tm::<Core, ()>(&eg, &leaf_term(k, &id), &nm).ok_or("base term cannot be looked up")?;
    let mut cmp = 0;
    for p in all_perms_k(k) {
        let q = lookup_tm::<Core, ()>(&eg, &leaf_term(k, &p), &nm).ok_or_else(|| format!("permuted copy {:?} cannot be looked up", p))?;
        let e = eg.eq(&base, &q);
        cmp += 1;
        // the copy with arguments permuted by p is equal iff p is in the generated group
        if e != cl.contains(&p) {
            return Err(format!(
                "after asserting the symmetries {:?} of a {}-slot leaf, the copy permuted by {:?} compares {} but the generated group {} it",
                c.gens,
                k,
                p,
                if e { "equal" } else { "unequal" },
                if cl.contains(&p) { "contains" } else { "does not contain" }
            ));
        }
    }
    let pr = eg.progress();
    if pr.number_of_live_classes != 1 || pr.sum_of_symmetries != cl.len() || pr.sum_of_slots != k {
        return Err(format!(
            "progress: live classes {} slots {} symmetries {}; expected 1, {}, {} for generators {:?}",
            pr.number_of_live_classes,
            pr.sum_of_slots,
            pr.sum_of_symmetries,
            k,
            cl.len(),
            c.gens
        ));
    }
    eg.check();
    obs.cmp(cmp + 3);
    let n = cl.len();
    let full: usize = (1..=k).product();
    obs.nontrivial = n > 1 && n < full;
    Ok(())
}

/// generator set, then one slot is made redundant; judged by the ground closure (orbits matter)
#[derive(Clone, Debug, Serialize, Deserialize, PartialEq, Eq)]
pub struct RedCase {
    pub k: u8,
    pub gens: Vec<P>,
    pub drop: u8,
}

pub fn red_hist(c: &RedCase) -> Hist {
    let k = c.k as usize;
    let id: P = (0..k as u8).collect();
    let mut ops = vec![HOp::Add(leaf_term(k, &id))];
    let mut n = 1;
    for g in &c.gens {
        ops.push(HOp::Add(leaf_term(k, g)));
        ops.push(HOp::Union(0, n));
        n += 1;
    }
    let mut renamed = id.clone();
    renamed[c.drop as usize % k] = k as u8; // a name the term lacks
    ops.push(HOp::Add(leaf_term(k, &renamed)));
    ops.push(HOp::Union(0, n));
    Hist { lang: LangId::Core, naming: Naming::Alpha, ops }
}

fn run_red(c: &RedCase, obs: &mut Obs) -> Result<(), String> {
    let h = red_hist(c);
    let mut o1 = Obs::default();
    run_closure(&h, Dir::Complete, &mut o1)?;
    let mut o2 = Obs::default();
    run_closure(&h, Dir::Sound, &mut o2)?;
    obs.cmp(o1.comparisons + o2.comparisons);
    let n = closure(c.k as usize, &c.gens).len();
    obs.nontrivial = n > 1;
    if o1.labels.contains("symmetry") {
        obs.label("symmetry-survives-redundancy");
    }
    Ok(())
}

/// generator set asserted on a leaf, then the leaf's class is merged with the class of another k-slot term that has
/// further members (so that either class can be the one that is absorbed); judged by the ground closure
#[derive(Clone, Debug, Serialize, Deserialize, PartialEq, Eq)]
pub struct MergeCase {
    pub k: u8,
    pub gens: Vec<P>,
    /// true: the symmetric class gets the extra members (and survives), false: the other class gets them
    pub sym_side_big: bool,
    pub flip: bool,
    /// assert the symmetries after the extra members were added (instead of before)
    pub late: bool,
}

fn merge_hist(c: &MergeCase) -> Hist {
    let k = c.k as usize;
    let id: P = (0..k as u8).collect();
    let g = |p: &P| leaf_term(k, p);
    let h = Tm::leaf(if k == 3 { "h3" } else { "h4" }, &id.iter().map(|x| *x as Name).collect::<Vec<_>>());
    let kk = |t: Tm| Arg::K(vec![], t);
    let f2 = |a: Name, b: Name| Tm::leaf("f2", &[a, b]);
    let v = |a: Name| Tm::leaf("v", &[a]);
    let extra: Vec<Tm> = if k == 3 {
        vec![Tm::node("p", vec![kk(f2(0, 1)), kk(v(2))]), Tm::node("p", vec![kk(v(0)), kk(f2(1, 2))])]
    } else {
        vec![Tm::node("p", vec![kk(f2(0, 1)), kk(f2(2, 3))]), Tm::node("p", vec![kk(f2(0, 2)), kk(f2(1, 3))])]
    };
    let mut ops = vec![HOp::Add(g(&id))];
    let mut n = 1;
    let assert_gens = |ops: &mut Vec<HOp>, n: &mut usize| {
        for p in &c.gens {
            ops.push(HOp::Add(g(p)));
            ops.push(HOp::Union(0, *n));
            *n += 1;
        }
    };
    if !c.late {
        assert_gens(&mut ops, &mut n);
    }
    ops.push(HOp::Add(h.clone()));
    let hi = n;
    n += 1;
    for e in &extra {
        ops.push(HOp::Add(e.clone()));
        ops.push(HOp::Union(if c.sym_side_big { 0 } else { hi }, n));
        n += 1;
    }
    if c.late {
        assert_gens(&mut ops, &mut n);
    }
    ops.push(if c.flip { HOp::Union(hi, 0) } else { HOp::Union(0, hi) });
    // every permuted copy of both leaves is part of the history, so that the closure compares all of them
    for p in all_perms_k(k) {
        ops.push(HOp::Add(g(&p)));
    }
    Hist { lang: LangId::Core, naming: Naming::Alpha, ops }
}

fn run_merge(c: &MergeCase, obs: &mut Obs) -> Result<(), String> {
    let hst = merge_hist(c);
    let mut o1 = Obs::default();
    run_closure(&hst, Dir::Complete, &mut o1)?;
    let mut o2 = Obs::default();
    run_closure(&hst, Dir::Sound, &mut o2)?;
    obs.cmp(o1.comparisons + o2.comparisons);
    let n = closure(c.k as usize, &c.gens).len();
    let full: usize = (1..=c.k as usize).product();
    obs.nontrivial = n > 1 && n < full;
    if c.gens.len() >= 2 {
        obs.label("two-generators-transported");
    }
    Ok(())
}

pub fn exhaustive_sets(max_k: usize) -> Vec<GroupCase> {
    let mut out = Vec::new();
    for k in 2..=max_k {
        let ps = all_perms_k(k);
        out.push(GroupCase { k: k as u8, gens: vec![] });
        for a in 0..ps.len() {
            out.push(GroupCase { k: k as u8, gens: vec![ps[a].clone()] });
            for b in a + 1..ps.len() {
                out.push(GroupCase { k: k as u8, gens: vec![ps[a].clone(), ps[b].clone()] });
                for c in b + 1..ps.len() {
                    out.push(GroupCase { k: k as u8, gens: vec![ps[a].clone(), ps[b].clone(), ps[c].clone()] });
                }
            }
        }
    }
    out
}

pub fn structured_perm(k: usize, src: &mut Src) -> P {
    // product of 1-2 disjoint cycles over chosen points (gives many proper subgroups), or a uniformly random permutation
    let mut p: P = (0..k as u8).collect();
    if src.pick(4) == 0 {
        for i in (1..k).rev() {
            let j = src.pick(i + 1);
            p.swap(i, j);
        }
        return p;
    }
    let mut pool: Vec<u8> = (0..k as u8).collect();
    let ncyc = 1 + src.pick(2);
    for _ in 0..ncyc {
        let len = 2 + src.pick(3);
        if pool.len() < len {
            break;
        }
        let mut cyc = Vec::new();
        for _ in 0..len {
            cyc.push(pool.remove(src.pick(pool.len())));
        }
        for i in 0..len {
            p[cyc[i] as usize] = cyc[(i + 1) % len];
        }
    }
    p
}

fn random_case(ch: &[u16]) -> GroupCase {
    let mut src = Src::new(ch);
    let k = 5 + src.pick(2);
    let n = 1 + src.pick(3);
    let gens = (0..n).map(|_| structured_perm(k, &mut src)).collect();
    GroupCase { k: k as u8, gens }
}

pub fn property(tier: Tier) -> Property {
    let stages: Vec<Box<dyn DynStage>> = vec![
        Box::new(Stage {
            name: "direct-exhaustive",
            source: Source::Enumerate(Arc::new(|| Box::new(exhaustive_sets(4).into_iter()))),
            run: run_direct,
            panic_is_violation: true,
            render: |c: &GroupCase| format!("points={} generators={:?}", c.k, c.gens),
            rule: "exhaustive: all generator sets of <= 3 permutations on 2, 3 and 4 points (3 + 42 + 2325 sets), directly on the group structure through the cfg(slotted_egraphs_verif) wrapper; every split of the set exercised through add_set; non-trivial = generated group is neither trivial nor the full symmetric group",
            case_timeout_s: 60,
            exhaustive: true,
        }),
        Box::new(Stage {
            name: "egraph-exhaustive",
            source: Source::Enumerate(Arc::new(|| Box::new(exhaustive_sets(4).into_iter()))),
            run: run_egraph,
            panic_is_violation: false,
            render: |c: &GroupCase| format!("points={} generators={:?} (as unions on a {}-slot leaf)", c.k, c.gens, c.k),
            rule: "exhaustive: the same generator sets asserted as unions of a multi-slot leaf with permuted copies, then all k! permuted copies queried with eq, plus progress().sum_of_symmetries; non-trivial as above",
            case_timeout_s: 60,
            exhaustive: true,
        }),
        Box::new(Stage {
            name: "direct-random-5-6",
            source: random(|| proptest::collection::vec(any::<u16>(), 0..40).prop_map(|ch| random_case(&ch)).boxed(), tier.pick(3000, 60_000)),
            run: run_direct,
            panic_is_violation: true,
            render: |c: &GroupCase| format!("points={} generators={:?}", c.k, c.gens),
            rule: "random generator sets (1-3 generators: products of 1-2 disjoint cycles, or uniform) on 5 and 6 points, directly on the group structure; non-trivial as above; distinct by generator list",
            case_timeout_s: 60,
            exhaustive: false,
        }),
        Box::new(Stage {
            name: "egraph-random-5-6",
            source: random(|| proptest::collection::vec(any::<u16>(), 0..40).prop_map(|ch| random_case(&ch)).boxed(), tier.pick(1500, 30_000)),
            run: run_egraph,
            panic_is_violation: false,
            render: |c: &GroupCase| format!("points={} generators={:?} (as unions on a {}-slot leaf)", c.k, c.gens, c.k),
            rule: "random generator sets on 5 and 6 points asserted through unions on g5 / g6 leaves, all 120 / 720 permuted copies queried",
            case_timeout_s: 60,
            exhaustive: false,
        }),
        Box::new(Stage {
            name: "egraph-redundancy",
            source: Source::Enumerate(Arc::new(|| {
                let mut v = Vec::new();
                for c in exhaustive_sets(4) {
                    if c.gens.len() > 2 || c.k < 3 {
                        continue;
                    }
                    for d in 0..c.k {
                        v.push(RedCase { k: c.k, gens: c.gens.clone(), drop: d });
                    }
                }
                Box::new(v.into_iter())
            })),
            run: run_red,
            panic_is_violation: false,
            render: |c: &RedCase| red_hist(c).render(),
            rule: "exhaustive: all generator sets of <= 2 permutations on 3 and 4 points, then each slot in turn made redundant by a further union; remaining symmetries and redundancies judged by the ground closure in both directions",
            case_timeout_s: 60,
            exhaustive: true,
        }),
        Box::new(Stage {
            name: "egraph-merged",
            source: Source::Enumerate(Arc::new(move || {
                let mut v = Vec::new();
                let mut i = 0usize;
                for c in exhaustive_sets(4) {
                    if c.gens.is_empty() || c.gens.len() > 2 || c.k < 3 {
                        continue;
                    }
                    for variant in 0..8u8 {
                        i += 1;
                        // quick tier: for 4 points every third (set, variant) combination
                        if c.k == 4 && tier == Tier::Quick && i % 3 != 0 {
                            continue;
                        }
                        v.push(MergeCase { k: c.k, gens: c.gens.clone(), sym_side_big: variant & 1 == 1, flip: variant & 2 == 2, late: variant & 4 == 4 });
                    }
                }
                Box::new(v.into_iter())
            })),
            run: run_merge,
            panic_is_violation: false,
            render: |c: &MergeCase| merge_hist(c).render(),
            rule: "exhaustive: all generator sets of 1-2 permutations on 3 and 4 points asserted on a leaf g (before or after further members were added), whose class is then merged with the class of another k-slot leaf h; either class has two further members, so both can be the absorbed one, both orientations of the union (k = 4: every third combination in the quick tier, all in the thorough tier); all k! permuted copies and all other terms judged by the ground closure in both directions: the generated group must survive the merge exactly",
            case_timeout_s: 60,
            exhaustive: true,
        }),
    ];
    Property {
        id: "C10", scale: tier.pick(8, 3),
        stages,
        assumptions: vec!["the wrapper VerifGroup (hook, cfg slotted_egraphs_verif) delegates to Group<Perm> without logic of its own".into()],
    }
}
