//! C11 — slot names do not matter: behaviour is equivariant under renaming.
use crate::analyses::MinSize;
use crate::egx::*;
use crate::engine::*;
use crate::langs::*;
use crate::mixed::*;
use crate::tm::*;
use proptest::prelude::*;
use serde::{Deserialize, Serialize};
use slotted_egraphs::*;
use std::collections::{BTreeMap, BTreeSet};

#[derive(Clone, Debug, PartialEq, Eq, Hash, Serialize, Deserialize)]
pub struct RenCase {
    pub base: Mixed,
    pub naming2: Naming,
    /// names are interned in reverse order before the second run (reverses the internal order of textual names)
    pub preintern_reverse: bool,
    /// how the rules' slots are spelled in the second run (Mixed::rule_slot_variant): 1 = $r<name> interned in reverse order,
    /// 2.. = names of existing class parameter slots ($f<n>)
    #[serde(default = "one")]
    pub rule_variant2: u8,
}

fn one() -> u8 {
    1
}

/// everything observable about one run, expressed in abstract names
#[derive(Debug, PartialEq, Eq, Clone)]
struct Record {
    per_step: Vec<(usize, usize, usize, usize, usize)>,
    rewrite_changed: Vec<bool>,
    handle_ids: Vec<usize>,
    handle_values: Vec<BTreeSet<Name>>,
    eq_matrix: Vec<Vec<bool>>,
    self_symmetries: Vec<BTreeSet<Vec<(Name, Name)>>>,
    min_size: Vec<u64>,
    best_cost: Vec<u64>,
    extracted_cost: Vec<u64>,
}

fn observe<L: Language + 'static>(c: &Mixed, nm: &Naming, all_names: &BTreeSet<Name>) -> Result<Record, String> {
    let mut case = c.clone();
    case.naming = nm.clone();
    let mut eg: EGraph<L, MinSize> = new_egraph(MinSize, c.extraction_subst);
    let mut per_step = Vec::new();
    let mut rewrite_changed = Vec::new();
    let mut last_changed = 0;
    let st = drive::<L, MinSize>(&case, &mut eg, &mut |eg, st, op| {
        let pr = eg.progress();
        // the number of classes ever allocated is not among the observables the property lists (temporary classes may differ)
        per_step.push((0, pr.number_of_live_classes, pr.sum_of_slots, pr.sum_of_symmetries, eg.total_number_of_nodes()));
        if matches!(op, MOp::Rewrite(_)) {
            rewrite_changed.push(st.rewrites_changed > last_changed);
            last_changed = st.rewrites_changed;
        }
        Ok(())
    })?;
    let back: BTreeMap<Slot, Name> = slot_names(all_names.iter().copied(), nm);
    let mut handle_values = Vec::new();
    let mut self_symmetries = Vec::new();
    for h in &st.handles {
        let f = eg.find_applied_id(h);
        let mut vals = BTreeSet::new();
        for s in f.slots().iter() {
            match back.get(s) {
                Some(n) => {
                    vals.insert(*n);
                }
                None => return Err(format!("handle {:?} has a slot {:?} that is no name of the history", f, s)),
            }
        }
        // self symmetries as permutations of abstract names
        let names: Vec<Name> = vals.iter().copied().collect();
        let mut syms = BTreeSet::new();
        if names.len() <= 4 {
            for p in perms(&names) {
                let sigma: BTreeMap<Name, Name> = names.iter().copied().zip(p.iter().copied()).collect();
                if eg.eq(&f, &f.apply_slotmap(&perm_slotmap(&sigma, nm))) {
                    syms.insert(sigma.into_iter().collect::<Vec<_>>());
                }
            }
        }
        handle_values.push(vals);
        self_symmetries.push(syms);
    }
    let n = st.handles.len();
    let eq_matrix = (0..n).map(|i| (0..n).map(|j| eg.eq(&st.handles[i], &st.handles[j])).collect()).collect();
    let ex = Extractor::<L, AstSize>::new(&eg, AstSize);
    let mut best_cost = Vec::new();
    let mut extracted_cost = Vec::new();
    let mut min_size = Vec::new();
    for h in &st.handles {
        let f = eg.find_applied_id(h);
        best_cost.push(ex.get_best_cost::<MinSize>(&f));
        extracted_cost.push(AstSize.cost_rec(&ex.extract(h, &eg)));
        min_size.push(*eg.analysis_data(h.id));
    }
    Ok(Record {
        per_step,
        rewrite_changed,
        handle_ids: st.handles.iter().map(|h| h.id.0).collect(),
        handle_values,
        eq_matrix,
        self_symmetries,
        min_size,
        best_cost,
        extracted_cost,
    })
}

fn in_fresh_thread<T: Send + 'static>(f: impl FnOnce() -> T + Send + 'static) -> Result<T, String> {
    std::thread::Builder::new()
        .stack_size(48 << 20)
        .spawn(f)
        .map_err(|e| e.to_string())?
        .join()
        .map_err(|_| "second run panicked".to_string())
}

fn run(c: &RenCase, obs: &mut Obs) -> Result<(), String> {
    crate::with_lang!(c.base.lang, L => run_l::<L>(c, obs))
}

fn run_l<L: Language + 'static>(c: &RenCase, obs: &mut Obs) -> Result<(), String> {
    let freshlike0 = matches!(c.naming2, Naming::FreshLike) || matches!(c.base.naming, Naming::FreshLike);
    if freshlike0 && c.base.n_rewrites() > 0 && crate::known::is_open("D19") {
        // known finding D19: with names spelled $f<n> the internal fresh slots are numbered from another offset, which changes
        // hash iteration orders inside the e-graph and thereby the order of matches; rewriting then reaches different e-graphs
        obs.skip = Some("D19".into());
        return Ok(());
    }
    let mut all_names: BTreeSet<Name> = BTreeSet::new();
    for t in c.base.terms() {
        all_names.extend(t.all_names());
    }
    let (c1, n1, an1) = (c.base.clone(), c.base.naming.clone(), all_names.clone());
    // all names of the history exist before the e-graph invents slots of its own (a user who first mentions `$f7` after the
    // library handed out `$f7` internally gets what they asked for; that is not a renaming of the input)
    let r1 = in_fresh_thread(move || {
        for n in an1.iter() {
            let _ = slot_of(*n, &n1);
        }
        observe::<L>(&c1, &n1, &an1)
    })??;
    let (mut c2, n2, an2, pre) = (c.base.clone(), c.naming2.clone(), all_names.clone(), c.preintern_reverse);
    // the rules are inputs as well: in the second run their pattern slots carry other names, interned in reverse order
    c2.rule_slot_variant = c.rule_variant2.max(1);
    if c.rule_variant2 >= 2 && c.base.n_rewrites() > 0 {
        obs.label("rule-slots-named-like-class-slots");
    }
    let r2 = in_fresh_thread(move || {
        if pre {
            for n in an2.iter().rev() {
                let _ = slot_of(*n, &n2);
            }
        } else {
            for n in an2.iter() {
                let _ = slot_of(*n, &n2);
            }
        }
        observe::<L>(&c2, &n2, &an2)
    })??;
    obs.cmp(1 + r1.eq_matrix.len() as u64 * r1.eq_matrix.len() as u64);
    let mut r1 = r1;
    let freshlike = matches!(c.naming2, Naming::FreshLike) || matches!(c.base.naming, Naming::FreshLike);
    if freshlike && crate::known::is_open("D19") && r1.handle_ids != r2.handle_ids {
        // known finding D19: which class id leads a merged class depends on the absolute numbering of internal fresh slots,
        // which names of the form $f<n> shift; everything else is still compared
        r1.handle_ids = r2.handle_ids.clone();
        obs.label("known-D19-class-ids-not-compared");
    }
    if std::env::var("VERIF_DEBUG").is_ok() {
        eprintln!("r1 = {:#?}\nr2 = {:#?}", r1, r2);
    }
    if r1 != r2 {
        // find the first differing component for the message
        let what = if r1.per_step != r2.per_step {
            format!("progress per step: {:?} vs {:?}", r1.per_step, r2.per_step)
        } else if r1.rewrite_changed != r2.rewrite_changed {
            format!("apply_rewrites results: {:?} vs {:?}", r1.rewrite_changed, r2.rewrite_changed)
        } else if r1.handle_ids != r2.handle_ids {
            format!("class ids of returned invocations: {:?} vs {:?}", r1.handle_ids, r2.handle_ids)
        } else if r1.handle_values != r2.handle_values {
            format!("argument names of canonical invocations: {:?} vs {:?}", r1.handle_values, r2.handle_values)
        } else if r1.eq_matrix != r2.eq_matrix {
            "equality answers between returned invocations".to_string()
        } else if r1.self_symmetries != r2.self_symmetries {
            format!("symmetries: {:?} vs {:?}", r1.self_symmetries, r2.self_symmetries)
        } else if r1.min_size != r2.min_size {
            format!("analysis data: {:?} vs {:?}", r1.min_size, r2.min_size)
        } else {
            format!("extraction costs: {:?}/{:?} vs {:?}/{:?}", r1.best_cost, r1.extracted_cost, r2.best_cost, r2.extracted_cost)
        };
        return Err(format!("renaming {:?} -> {:?}{} changes an observable answer: {}", c.base.naming, c.naming2, if c.preintern_reverse { " (names interned in reverse order)" } else { "" }, what));
    }
    let has_sym = r1.self_symmetries.iter().any(|s| s.len() > 1);
    let has_red = c.base.terms().iter().zip(r1.handle_values.iter()).any(|(t, v)| v.len() < t.fv().len());
    let multi = c.base.terms().iter().any(|t| t.subterms().iter().any(|s| s.fv().len() >= 2));
    let reverses = matches!(
        (&c.base.naming, &c.naming2),
        (Naming::Numeric, Naming::NumericRev) | (Naming::NumericRev, Naming::Numeric) | (Naming::Alpha, Naming::Numeric) | (Naming::Alpha, Naming::NumericRev) | (Naming::Alpha, Naming::AlphaRev) | (Naming::Numeric, Naming::Alpha) | (Naming::Numeric, Naming::AlphaRev)
    ) || c.preintern_reverse;
    if has_sym {
        obs.label("symmetry");
    }
    if has_red {
        obs.label("redundancy");
    }
    if matches!(c.naming2, Naming::FreshLike) || matches!(c.base.naming, Naming::FreshLike) {
        obs.label("names-like-internal-fresh-slots");
    }
    obs.nontrivial = reverses && multi && (has_sym || has_red);
    Ok(())
}

fn strategy(lang: LangId, max_ops: usize) -> BoxedStrategy<RenCase> {
    let mut cfg = MixedCfg::for_lang(lang);
    cfg.max_ops = max_ops;
    cfg.hist.namings = vec![Naming::Alpha, Naming::Numeric, Naming::NumericRev];
    let namings = vec![Naming::Alpha, Naming::Numeric, Naming::NumericRev, Naming::FreshLike, Naming::AlphaRev];
    (mixed_strategy(cfg), proptest::sample::select(namings), any::<bool>(), any::<u8>())
        .prop_map(|(base, naming2, preintern_reverse, rv)| RenCase { base, naming2, preintern_reverse, rule_variant2: if rv % 3 == 0 { 2 + (rv / 3) % 8 } else { 1 } })
        .prop_filter("different naming", |c| c.base.naming != c.naming2 || c.preintern_reverse)
        .boxed()
}

pub fn property(tier: Tier) -> Property {
    let mut stages: Vec<Box<dyn DynStage>> = Vec::new();
    for (name, lang, q, t) in [("rename-core", LangId::Core, 6000u32, 120_000u32), ("rename-lambda", LangId::Lambda, 1500, 30_000), ("rename-fgh", LangId::Fgh, 1000, 20_000), ("rename-sdql", LangId::Sdql, 1000, 20_000), ("rename-arith", LangId::Arith, 1000, 20_000)] {
        let max_ops = tier.pick(8, 12);
        stages.push(Box::new(Stage {
            name,
            source: random(move || strategy(lang, max_ops), tier.pick(q, t)),
            run,
            panic_is_violation: false,
            render: |c: &RenCase| format!("{} naming1={:?} naming2={:?} preintern_reverse={}", c.base.render(), c.base.naming, c.naming2, c.preintern_reverse) + if c.rule_variant2 >= 2 { " rule slots named like existing class slots" } else { "" },
            rule: "a mixed history (insertions, unions, rewrite iterations, min-size analysis, extraction) run twice in fresh threads under two injective spellings of the slot alphabet ($a.., $1.., $300-i (reversed numeric order), $f0.. (collides with internal fresh names), $z.. ; optionally interned in reverse order); every observable compared in abstract names; non-trivial = the renaming reverses the internal order of slots occurring together in a node and the history has a symmetry or a redundancy; distinct by rendered case",
            case_timeout_s: tier.pick(30, 120),
            exhaustive: false,
        }));
    }
    Property { id: "C11", scale: tier.pick(3, 2), stages, assumptions: vec!["in the second run the pattern slots of the rewrite rules are renamed as well: $x -> $rx .. interned in reverse order, or (one case in three) spelled with the names of parameter slots of classes that exist when the rule is built ($f<n>)".into()] }
}
