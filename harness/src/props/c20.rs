//! C20 — runs are reproducible: the same operations give the same transcript.
use crate::engine::*;
use crate::langs::*;
use crate::mixed::*;
use slotted_egraphs::*;
use proptest::strategy::Strategy;
use std::io::Write;
use std::sync::atomic::{AtomicBool, Ordering};
use std::sync::Arc;

/// The observable transcript of a history: every returned value rendered with Debug/Display, in order.
pub fn transcript(c: &Mixed, with_dump_marker: bool) -> String {
    crate::with_lang!(c.lang, L => transcript_l::<L>(c, with_dump_marker))
}

fn transcript_l<L: Language + 'static>(c: &Mixed, dump: bool) -> String {
    let mut out = String::new();
    let mut eg: EGraph<L> = new_egraph((), c.extraction_subst);
    let pool = rule_pool(c.lang);
    let r = drive::<L, ()>(c, &mut eg, &mut |eg, st, op| {
        match op {
            MOp::Add(_) | MOp::AddSyn(_) => out.push_str(&format!("add -> {:?}\n", st.handles.last().unwrap())),
            MOp::Union(i, j) => out.push_str(&format!("union t{} t{} -> eq={} \n", i, j, *i < st.handles.len() && *j < st.handles.len() && eg.eq(&st.handles[*i], &st.handles[*j]))),
            MOp::Rewrite(_) => out.push_str(&format!("rewrite -> changed so far {}\n", st.rewrites_changed)),
        }
        let pr = eg.progress();
        out.push_str(&format!("  progress {} {} {} {} nodes {} ids {:?}\n", pr.number_of_classes, pr.number_of_live_classes, pr.sum_of_slots, pr.sum_of_symmetries, eg.total_number_of_nodes(), eg.ids()));
        for h in &st.handles {
            out.push_str(&format!("  find {:?} = {:?}\n", h, eg.find_applied_id(h)));
        }
        Ok(())
    });
    if let Err(e) = r {
        out.push_str(&format!("error {e}\n"));
        return out;
    }
    let st = r.unwrap();
    // matches of the first rules' left sides
    for rt in pool.iter().take(4) {
        if let Ok(p) = Pattern::<L>::parse(rt.lhs) {
            let ms = ematch_all(&eg, &p);
            out.push_str(&format!("ematch {} -> {} matches\n", rt.lhs, ms.len()));
            for m in ms {
                // the order of the match list and of each substitution is part of the transcript
                let mut items: Vec<String> = Vec::new();
                for (k, v) in m.iter() {
                    items.push(format!("{}={:?}", k, v));
                }
                out.push_str(&format!("   {}\n", items.join(" ")));
            }
        }
    }
    // matches of multi-patterns obtained by flattening inserted terms (shared variables, identified variables / slots)
    {
        let nm = &c.naming;
        let n = st.terms.len();
        for k in 0..3usize.min(n) {
            let window: Vec<crate::tm::Tm> = st.terms[k..(k + 2).min(n)].iter().filter(|t| t.size() <= 12).cloned().collect();
            if window.is_empty() {
                continue;
            }
            let choices: Vec<u16> = (0..16).map(|i| ((k as u32 * 7919 + i * 104729 + n as u32 * 31) % 65536) as u16).collect();
            let eqs = crate::props::c05::multi_from_term(&window, &mut crate::tm::Src::new(if k == 0 { &[] } else { &choices }));
            if eqs.is_empty() {
                continue;
            }
            let txt = eqs.iter().map(|(v, t)| format!("?{} == {}", v, crate::pat::render_pat(t, nm))).collect::<Vec<_>>().join(", ");
            let Ok(mp) = MultiPattern::<L>::parse(&txt) else { continue };
            let ms = multi_ematch(&mp, &eg);
            out.push_str(&format!("multi_ematch {} -> {} matches\n", txt, ms.len()));
            for m in ms.iter().take(40) {
                let items: Vec<String> = m.iter().map(|(k, v)| format!("{}={:?}", k, v)).collect();
                out.push_str(&format!("   {}\n", items.join(" ")));
            }
        }
    }
    // class contents
    for i in eg.ids() {
        let ns: Vec<String> = eg.enodes(i).iter().map(|n| format!("{:?}", n)).collect();
        out.push_str(&format!("class {:?} slots {:?}: {}\n", i, eg.slots(i), ns.join(" | ")));
    }
    // extraction
    let ex = Extractor::<L, AstSize>::new(&eg, AstSize);
    for h in &st.handles {
        out.push_str(&format!("extract {:?} -> {}\n", h, ex.extract(h, &eg)));
    }
    #[cfg(feature = "explanations")]
    {
        for (i, a) in st.handles.iter().enumerate() {
            for (j, b) in st.handles.iter().enumerate().skip(i + 1) {
                if eg.eq(a, b) && i + j < 6 {
                    let ta = crate::egx::parse_tm::<L>(&st.terms[i], &c.naming);
                    let tb = crate::egx::parse_tm::<L>(&st.terms[j], &c.naming);
                    let r = std::panic::catch_unwind(std::panic::AssertUnwindSafe(|| {
                        let p = eg.explain_equivalence(ta, tb);
                        p.to_string(&eg)
                    }));
                    match r {
                        Ok(s) => out.push_str(&format!("explain t{} t{}:\n{}\n", i, j, s)),
                        Err(_) => out.push_str(&format!("explain t{} t{}: panic\n", i, j)),
                    }
                }
            }
        }
    }
    if dump {
        out.push_str("--dump--\n");
    }
    out
}

/// child-process entry: reads the case as JSON from stdin, prints the transcript and the dump to stdout
pub fn child_main() {
    crate::engine::install_panic_hook();
    let mut s = String::new();
    std::io::Read::read_to_string(&mut std::io::stdin(), &mut s).unwrap();
    let c: Mixed = serde_json::from_str(&s).expect("case");
    // simulate what other threads of the process did earlier: intern symbols in the given order first
    if let Ok(pre) = std::env::var("SEV_PREINTERN") {
        for w in pre.split_whitespace() {
            let _ = Symbol::from(w);
        }
    }
    // run in a fresh thread, like every other execution
    let c2 = c.clone();
    let t = std::thread::Builder::new().stack_size(48 << 20).spawn(move || transcript(&c2, true)).unwrap().join().unwrap_or_else(|_| "panic".into());
    print!("{}", t);
    std::io::stdout().flush().unwrap();
    // the dump goes to stdout directly
    crate::with_lang!(c.lang, L => {
        let mut eg: EGraph<L> = new_egraph((), c.extraction_subst);
        let _ = drive::<L, ()>(&c, &mut eg, &mut |_, _, _| Ok(()));
        eg.dump();
    });
}

/// child-process entry (stdout is discarded by the parent, the verdict goes to stderr): the transcript is taken once without
/// any interference and then three times while another thread of this process calls EGraph::dump() on an e-graph of its own in a
/// loop (dump prints to the process's stdout, which is why this runs in a child); all four must be identical
pub fn child_under_dump_main() {
    crate::engine::install_panic_hook();
    let mut s = String::new();
    std::io::Read::read_to_string(&mut std::io::stdin(), &mut s).unwrap();
    let c: Mixed = serde_json::from_str(&s).expect("case");
    let run = |c: &Mixed| -> String {
        let c2 = c.clone();
        std::thread::Builder::new().stack_size(48 << 20).spawn(move || transcript(&c2, false)).unwrap().join().unwrap_or_else(|_| "panic".into())
    };
    let t0 = run(&c);
    let stop = Arc::new(AtomicBool::new(false));
    let stop2 = stop.clone();
    let dumper = std::thread::spawn(move || {
        let mut eg: EGraph<Arith> = EGraph::default();
        for j in 0..12 {
            eg.add_expr(RecExpr::parse(&format!("(add (var $q0) (mul {} (lam $z (app (var $z) (var $q1)))))", j)).unwrap());
        }
        while !stop2.load(Ordering::Relaxed) {
            eg.dump();
        }
    });
    let mut verdict = "SAME".to_string();
    for k in 0..3 {
        let t = run(&c);
        if t != t0 {
            verdict = format!("DIFF replay {} while another thread is inside EGraph::dump(): {}", k, first_diff(&t0, &t));
            break;
        }
    }
    stop.store(true, Ordering::Relaxed);
    let _ = dumper.join();
    eprintln!("SEV-UNDER-DUMP {}", verdict);
}

fn run_under_dump(c: &Mixed, obs: &mut Obs) -> Result<(), String> {
    let exe = std::env::current_exe().map_err(|e| e.to_string())?;
    let input = serde_json::to_string(c).unwrap();
    let mut child = std::process::Command::new(&exe)
        .arg("transcript-under-dump")
        .stdin(std::process::Stdio::piped())
        .stdout(std::process::Stdio::null())
        .stderr(std::process::Stdio::piped())
        .spawn()
        .map_err(|e| e.to_string())?;
    child.stdin.take().unwrap().write_all(input.as_bytes()).map_err(|e| e.to_string())?;
    let o = child.wait_with_output().map_err(|e| e.to_string())?;
    let err = String::from_utf8_lossy(&o.stderr).to_string();
    let Some(line) = err.lines().find(|l| l.starts_with("SEV-UNDER-DUMP ")) else {
        // the child died without a verdict (not a statement about reproducibility): the case is not judged
        obs.label("child-without-verdict");
        return Ok(());
    };
    obs.cmp(3);
    let v = &line["SEV-UNDER-DUMP ".len()..];
    if v != "SAME" {
        return Err(v.to_string());
    }
    obs.nontrivial = true;
    Ok(())
}

fn interfere(stop: Arc<AtomicBool>, k: usize) {
    // unrelated e-graph work: other languages, fresh slots, other symbols
    let mut i = 0u64;
    while !stop.load(Ordering::Relaxed) {
        i += 1;
        let _ = Slot::fresh();
        let _ = Slot::named(&format!("zz{}_{}", k, i % 50));
        let sym = format!("sym{}_{}", k, i % 97);
        let mut eg: EGraph<Arith> = EGraph::default();
        let a = eg.add_expr(RecExpr::parse(&format!("(add {} (mul {} (var $q{})))", sym, i % 7, i % 5)).unwrap());
        let b = eg.add_expr(RecExpr::parse(&format!("(add (mul {} (var $q{})) {})", i % 7, i % 5, sym)).unwrap());
        eg.union(&a, &b);
        let _ = ast_size_extract(&a, &eg);
        // now and then a much bigger e-graph with a long rebuild worklist is built and dropped (whatever a dropped e-graph
        // leaves behind in the process must not show in the replays)
        if k == 0 && i % 24 == 1 {
            let mut big: EGraph<Arith> = EGraph::default();
            let x = big.add_expr(RecExpr::parse("(var $q0)").unwrap());
            let y = big.add_expr(RecExpr::parse("(mul 1 (var $q0))").unwrap());
            for j in 0..150 {
                big.add_expr(RecExpr::parse(&format!("(add (var $q0) (mul {} (var $q1)))", j)).unwrap());
                big.add_expr(RecExpr::parse(&format!("(add (mul 1 (var $q0)) (mul {} (var $q1)))", j)).unwrap());
            }
            big.union(&x, &y);
            drop(big);
        }
    }
}

fn fresh_run(c: &Mixed) -> Result<String, String> {
    let c2 = c.clone();
    std::thread::Builder::new()
        .stack_size(48 << 20)
        .spawn(move || transcript(&c2, false))
        .map_err(|e| e.to_string())?
        .join()
        .map_err(|_| "transcript thread panicked".to_string())
}

fn first_diff(a: &str, b: &str) -> String {
    for (i, (x, y)) in a.lines().zip(b.lines()).enumerate() {
        if x != y {
            return format!("line {}: {:?} vs {:?}", i, x, y);
        }
    }
    format!("lengths {} vs {}", a.len(), b.len())
}

fn run_threads(c: &Mixed, obs: &mut Obs) -> Result<(), String> {
    // (i) three fresh threads one after another
    let t0 = fresh_run(c)?;
    for k in 0..2 {
        let t = fresh_run(c)?;
        obs.cmp(1);
        if t != t0 {
            return Err(format!("replay {} in a fresh thread differs: {}", k + 1, first_diff(&t0, &t)));
        }
    }
    // (ii) three fresh threads concurrently with four interfering threads
    let stop = Arc::new(AtomicBool::new(false));
    let hs: Vec<_> = (0..4)
        .map(|k| {
            let s = stop.clone();
            std::thread::spawn(move || interfere(s, k))
        })
        .collect();
    let runs: Vec<_> = (0..3)
        .map(|_| {
            let c2 = c.clone();
            std::thread::Builder::new().stack_size(48 << 20).spawn(move || transcript(&c2, false)).unwrap()
        })
        .collect();
    let results: Vec<Result<String, String>> = runs.into_iter().map(|h| h.join().map_err(|_| "panicked".to_string())).collect();
    stop.store(true, Ordering::Relaxed);
    for h in hs {
        let _ = h.join();
    }
    for (k, r) in results.into_iter().enumerate() {
        let t = r?;
        obs.cmp(1);
        if t != t0 {
            return Err(format!("replay {} concurrent with unrelated e-graph work differs: {}", k, first_diff(&t0, &t)));
        }
    }
    classify(c, &t0, obs);
    Ok(())
}

fn classify(c: &Mixed, t0: &str, obs: &mut Obs) {
    let has_fresh = t0.contains("$f");
    let matches = t0.lines().filter(|l| l.starts_with("   ")).count();
    let extraction = t0.contains("extract ");
    if c.lang == LangId::Arith || c.lang == LangId::Rise || c.lang == LangId::ArrayLang {
        obs.label("symbol-payload-language");
    }
    obs.nontrivial = has_fresh && matches >= 2 && extraction;
}

#[derive(Clone, Debug, PartialEq, Eq, Hash, serde::Serialize, serde::Deserialize)]
pub struct ProcCase {
    pub base: Mixed,
    /// the second process interns the history's symbol payloads in reverse order (and some others) before the replay,
    /// as another thread of the same process could have done
    pub preintern_variation: bool,
}

fn symbols_of(c: &Mixed) -> Vec<String> {
    let mut out = Vec::new();
    for t in c.terms() {
        for s in t.subterms() {
            if s.op.is_empty() {
                if let Some(crate::tm::Arg::P(p)) = s.args.first() {
                    if p.parse::<u32>().is_err() && !out.contains(p) {
                        out.push(p.clone());
                    }
                }
            }
        }
    }
    out
}

fn run_processes(pc: &ProcCase, obs: &mut Obs) -> Result<(), String> {
    let c = &pc.base;
    let syms = symbols_of(c);
    let varies = pc.preintern_variation && !syms.is_empty();
    if varies && crate::known::is_open("D17") {
        obs.skip = Some("D17".into());
        return Ok(());
    }
    let exe = std::env::current_exe().map_err(|e| e.to_string())?;
    let input = serde_json::to_string(c).unwrap();
    let mut outs = Vec::new();
    for k in 0..2 {
        let pre = if varies && k == 1 {
            // a few dozen other symbols first (the intern index is the hash and the order of a Symbol)
            let n = 21 + (input.len() % 23);
            let mut v: Vec<String> = (0..n).map(|i| format!("other{}", i)).collect();
            v.extend(syms.iter().rev().cloned());
            v.join(" ")
        } else {
            String::new()
        };
        let mut child = std::process::Command::new(&exe)
            .arg("transcript")
            .env("SEV_PREINTERN", pre)
            .env("SEV_CHILD_VARIATION", format!("{}", "x".repeat(k * 1000)))
            .stdin(std::process::Stdio::piped())
            .stdout(std::process::Stdio::piped())
            .stderr(std::process::Stdio::null())
            .spawn()
            .map_err(|e| e.to_string())?;
        child.stdin.take().unwrap().write_all(input.as_bytes()).map_err(|e| e.to_string())?;
        let o = child.wait_with_output().map_err(|e| e.to_string())?;
        outs.push(String::from_utf8_lossy(&o.stdout).to_string());
    }
    obs.cmp(2);
    if outs[0] != outs[1] {
        return Err(format!("two processes print different transcripts / dumps: {}", first_diff(&outs[0], &outs[1])));
    }
    let head = outs[0].split("--dump--\n").next().unwrap_or("").to_string();
    if syms.is_empty() {
        // and the in-process transcript agrees with the child's (up to the dump); for languages with Symbol payloads the
        // harness process itself has interned symbols in an order of its own, which is the variation tested above
        let t0 = fresh_run(c)?;
        if head != t0 {
            return Err(format!("the transcript of a separate process differs from the in-process one: {}", first_diff(&t0, &head)));
        }
    }
    if varies {
        obs.label("symbol-interning-order-varied");
    }
    classify(c, &head, obs);
    Ok(())
}

pub fn property(tier: Tier) -> Property {
    let mut stages: Vec<Box<dyn DynStage>> = Vec::new();
    for (name, lang, q, t) in [("threads-core", LangId::Core, 1500u32, 30_000u32), ("threads-arith", LangId::Arith, 800, 16_000), ("threads-lambda", LangId::Lambda, 500, 10_000)] {
        let mut cfg = MixedCfg::for_lang(lang);
        cfg.max_ops = tier.pick(8, 12);
        // also spellings that leave no trace in the thread's name table ($3, $f7): whatever such a name does to the thread-local
        // slot state has to happen again in the replaying thread
        cfg.hist.namings = crate::tm::Naming::diverse();
        stages.push(Box::new(Stage {
            name,
            source: random(move || mixed_strategy(cfg.clone()), tier.pick(q, t)),
            run: run_threads,
            panic_is_violation: false,
            render: |c: &Mixed| c.render(),
            rule: "a mixed history (insertions, unions, rewrite iterations, then ematch_all, multi_ematch of multi-patterns flattened from the inserted terms, class listing and extraction; explanations rendered under that feature) replayed in 3 fresh threads one after another and in 3 fresh threads concurrently with 4 threads that build (and drop) other e-graphs, small ones and ones with hundreds of e-nodes and a long rebuild worklist, mint fresh slots and intern other symbols; transcripts must be byte-identical; non-trivial = the transcript contains a fresh slot name, at least 2 matches and an extraction; distinct by rendered history",
            case_timeout_s: tier.pick(30, 120),
            exhaustive: false,
        }));
    }
    for (name, lang, q, t) in [("processes-core", LangId::Core, 200u32, 3000u32), ("processes-arith", LangId::Arith, 100, 1500)] {
        let mut cfg = MixedCfg::for_lang(lang);
        cfg.max_ops = tier.pick(8, 12);
        stages.push(Box::new(Stage {
            name,
            source: random(move || (mixed_strategy(cfg.clone()), proptest::prelude::any::<bool>()).prop_map(|(base, preintern_variation)| ProcCase { base, preintern_variation }).boxed(), tier.pick(q, t)),
            run: run_processes,
            panic_is_violation: false,
            render: |c: &ProcCase| format!("{} preintern_variation={}", c.base.render(), c.preintern_variation),
            rule: "the same kind of history replayed in 2 separate processes (different environment size, ASLR) whose stdout (transcript plus EGraph::dump output) must be byte-identical and (for languages without Symbol payloads) agree with the in-process transcript; in half of the cases the second process first interns the history's Symbol payloads in reverse order, as another thread could have done",
            case_timeout_s: tier.pick(30, 120),
            exhaustive: false,
        }));
    }
    {
        let mut cfg = MixedCfg::for_lang(LangId::Core);
        cfg.max_ops = tier.pick(8, 12);
        cfg.hist.namings = crate::tm::Naming::diverse();
        stages.push(Box::new(Stage {
            name: "processes-core-under-dump",
            source: random(move || mixed_strategy(cfg.clone()), tier.pick(640, 6000)),
            run: run_under_dump,
            panic_is_violation: false,
            render: |c: &Mixed| c.render(),
            rule: "the same kind of history, in a child process whose stdout is discarded: the transcript is taken once undisturbed and three times while another thread of that process calls EGraph::dump() on its own e-graph in a loop; all four transcripts must be byte-identical (printing in one thread must not change what another thread prints)",
            case_timeout_s: tier.pick(30, 120),
            exhaustive: false,
        }));
    }
    Property { id: "C20", scale: tier.pick(1, 1), stages, assumptions: vec!["thread interleavings are sampled by stress, not enumerated (DESIGN 7)".into()] }
}
