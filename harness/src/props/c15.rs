//! C15 — saturation and stop reasons are reported truthfully.
use crate::egx::*;
use crate::engine::*;
use crate::fp::*;
use crate::langs::*;
use crate::mixed::*;
use crate::tm::*;
use proptest::prelude::*;
use serde::{Deserialize, Serialize};
use slotted_egraphs::*;
use std::cell::RefCell;
use std::rc::Rc;
use std::time::Duration;

#[derive(Clone, Debug, PartialEq, Eq, Hash, Serialize, Deserialize)]
pub struct SatCase {
    /// insertions and unions that build the start e-graph (rewrite ops are ignored)
    pub base: Mixed,
    pub rules: Vec<usize>,
    pub iter_limit: u8,
    pub node_limit: u16,
    /// the hook fails at this iteration (0-based), if any
    pub hook_fail_at: Option<u8>,
    /// 0: manual apply_rewrites loop, 1: Runner, 2: run_eqsat
    pub mode: u8,
    /// manual loop only: each apply_rewrites call gets a single rule, cycling through the rule list (so that a step can
    /// change nothing but, say, the size of an already non-trivial symmetry group)
    #[serde(default)]
    pub staged: bool,
    /// Runner only: the hook unites the i-th and j-th inserted term at iteration k (a hook that changes the e-graph)
    #[serde(default)]
    pub hook_union: Option<(u8, u16, u16)>,
    /// Runner only: the node limit is the size of the start e-graph plus this offset (limits right at the sizes the run
    /// passes through), instead of `node_limit`
    #[serde(default)]
    pub node_limit_rel: Option<i8>,
}

pub fn lookup_pattern<L: Language, N: Analysis<L>>(eg: &EGraph<L, N>, p: &Pattern<L>, subst: &Subst) -> Option<Option<AppliedId>> {
    // None = pattern contains a substitution form (cannot be instantiated without inserting); Some(None) = not represented
    match p {
        Pattern::PVar(v) => Some(subst.get(v).cloned()),
        Pattern::Subst(..) => None,
        Pattern::ENode(n, ks) => {
            let mut n = n.clone();
            let mut ids = Vec::new();
            for k in ks {
                match lookup_pattern(eg, k, subst)? {
                    Some(a) => ids.push(a),
                    None => return Some(None),
                }
            }
            for (r, a) in n.applied_id_occurrences_mut().into_iter().zip(ids.into_iter()) {
                *r = a;
            }
            Some(eg.lookup(&n))
        }
    }
}

fn tracked<L: Language, N: Analysis<L>>(eg: &EGraph<L, N>, terms: &[Tm], nm: &Naming) -> Vec<AppliedId> {
    let mut out = Vec::new();
    let mut seen = std::collections::BTreeSet::new();
    for t in terms {
        for s in t.subterms() {
            if seen.insert(s.clone()) {
                if let Some(a) = lookup_tm::<L, N>(eg, s, nm) {
                    out.push(a);
                }
            }
        }
    }
    out
}

fn saturated_check<L: Language + 'static>(eg: &mut EGraph<L>, rules_txt: &[RuleTxt], tr: &[AppliedId], obs: &mut Obs) -> Result<(), String> {
    // every match of every rule: both sides represented and equal
    for rt in rules_txt {
        let lhs: Pattern<L> = Pattern::parse(rt.lhs).map_err(|e| format!("{e:?}"))?;
        let rhs: Pattern<L> = Pattern::parse(rt.rhs).map_err(|e| format!("{e:?}"))?;
        for m in ematch_all(eg, &lhs) {
            if let Some((s, v)) = rt.not_free {
                if m[v].slots().contains(&Slot::named(s)) {
                    continue;
                }
            }
            let l = lookup_pattern(eg, &lhs, &m).flatten();
            obs.cmp(1);
            let Some(l) = l else { return Err(format!("saturated, but the left side of a match of rule {} is not represented: {:?}", rt.name, m)) };
            match lookup_pattern(eg, &rhs, &m) {
                None => {} // substitution form: covered by the idempotence check below
                Some(None) => return Err(format!("reported saturated, but rule {} has a match {:?} whose right side is not represented", rt.name, m)),
                Some(Some(r)) => {
                    if !eg.eq(&l, &r) {
                        return Err(format!("reported saturated, but rule {} has a match {:?} whose sides {:?} and {:?} are not equal", rt.name, m, l, r));
                    }
                }
            }
        }
    }
    // applying every rule once more changes nothing
    let before = fingerprint(eg, tr);
    let rules: Vec<Rewrite<L, ()>> = rules_txt.iter().map(|r| build_rule::<L, ()>(r)).collect();
    let ch = apply_rewrites(eg, &rules);
    let after = fingerprint(eg, tr);
    if ch {
        return Err("reported saturated, but one more apply_rewrites returns true".into());
    }
    if before != after {
        return Err(format!("reported saturated, but one more apply_rewrites changes the e-graph: {:?} -> {:?}", before, after));
    }
    Ok(())
}

fn run(c: &SatCase, obs: &mut Obs) -> Result<(), String> {
    crate::with_lang!(c.base.lang, L => run_l::<L>(c, obs))
}

fn run_l<L: Language + 'static>(c: &SatCase, obs: &mut Obs) -> Result<(), String> {
    let nm = c.base.naming.clone();
    let pool = rule_pool(c.base.lang);
    let rules_txt: Vec<RuleTxt> = c.rules.iter().map(|i| pool[*i % pool.len()].clone()).collect();
    let mk_rules = || -> Vec<Rewrite<L, ()>> { rules_txt.iter().map(|r| build_rule::<L, ()>(r)).collect() };
    // start e-graph: adds and unions only
    let mut base = c.base.clone();
    base.ops.retain(|o| !matches!(o, MOp::Rewrite(_)));
    let mut eg: EGraph<L> = new_egraph((), base.extraction_subst);
    let st = drive::<L, ()>(&base, &mut eg, &mut |_, _, _| Ok(()))?;
    if st.terms.is_empty() {
        return Ok(());
    }
    let iter_limit = c.iter_limit as usize;
    let node_limit = match c.node_limit_rel {
        Some(r) => (eg.total_number_of_nodes() as i64 + r as i64).max(0) as usize,
        None => c.node_limit as usize,
    };
    if c.node_limit_rel.is_some() {
        obs.label("node-limit-near-start-size");
    }
    match c.mode % 3 {
        0 => {
            // manual loop: apply_rewrites == false  =>  nothing observable changed
            let rules = mk_rules();
            let mut iters = 0;
            let rounds = if c.staged { (iter_limit.max(1)) * rules.len().max(1) + 2 } else { iter_limit.max(1) };
            let mut quiet = 0;
            for round in 0..rounds {
                if eg.total_number_of_nodes() > 600 {
                    break;
                }
                let tr = tracked(&eg, &st.terms, &nm);
                let before = fingerprint(&eg, &tr);
                let ch = if c.staged { apply_rewrites(&mut eg, std::slice::from_ref(&rules[round % rules.len()])) } else { apply_rewrites(&mut eg, &rules) };
                let after = fingerprint(&eg, &tr);
                iters += 1;
                obs.cmp(1);
                if !ch && before != after {
                    return Err(format!("apply_rewrites returned false but the e-graph changed: {:?} -> {:?}", before, after));
                }
                if c.staged {
                    // saturated only when every single rule was quiet once in a row
                    quiet = if ch { 0 } else { quiet + 1 };
                    if quiet < rules.len() {
                        continue;
                    }
                }
                if !ch {
                    obs.label("saturated");
                    let tr = tracked(&eg, &st.terms, &nm);
                    saturated_check(&mut eg, &rules_txt, &tr, obs)?;
                    break;
                }
            }
            if c.staged {
                obs.label("staged-single-rules");
            }
            obs.nontrivial = iters >= 2;
        }
        1 => {
            let fail_at = c.hook_fail_at.map(|x| x as usize);
            let counter = Rc::new(RefCell::new(0usize));
            let counter2 = counter.clone();
            let hu = c.hook_union.and_then(|(k, i, j)| {
                let n = st.handles.len();
                if n == 0 {
                    None
                } else {
                    Some((k as usize, st.handles[(i as usize * n) >> 16].clone(), st.handles[(j as usize * n) >> 16].clone()))
                }
            });
            let mut runner: Runner<L, (), (), String> = Runner::new(())
                .with_egraph(eg)
                .with_iter_limit(iter_limit)
                .with_node_limit(node_limit)
                .with_time_limit(Duration::from_secs(100_000))
                .with_hook(move |r| {
                    let mut k = counter2.borrow_mut();
                    let cur = *k;
                    *k += 1;
                    if let Some((at, a, b)) = &hu {
                        if *at == cur {
                            r.egraph.union(a, b);
                        }
                    }
                    if Some(cur) == fail_at {
                        Err(format!("hook failed at {}", cur))
                    } else {
                        Ok(())
                    }
                });
            let rules = mk_rules();
            let rep = runner.run(&rules);
            let mut eg = runner.egraph;
            obs.cmp(4);
            if rep.egraph_nodes != eg.total_number_of_nodes() {
                return Err(format!("report.egraph_nodes = {} but the e-graph has {} e-nodes", rep.egraph_nodes, eg.total_number_of_nodes()));
            }
            if c.hook_union.is_some() {
                obs.label("hook-changes-egraph");
            }
            if rep.iterations > iter_limit + 2 {
                return Err(format!("the run took {} iterations with an iteration limit of {}", rep.iterations, iter_limit));
            }
            if rep.iterations != *counter.borrow() {
                return Err(format!("report.iterations = {} but the hook ran {} times", rep.iterations, counter.borrow()));
            }
            match &rep.stop_reason {
                StopReason::Saturated => {
                    obs.label("saturated");
                    // a hook that changed the e-graph in the last iteration may have enabled new matches: only then is a non-idle extra round legitimate
                    let hook_in_last = c.hook_union.map(|(k, _, _)| k as usize + 1 == rep.iterations).unwrap_or(false);
                    if !hook_in_last {
                        let tr = tracked(&eg, &st.terms, &nm);
                        saturated_check(&mut eg, &rules_txt, &tr, obs)?;
                    }
                }
                StopReason::NodeLimit => {
                    obs.label("node-limit");
                    if eg.total_number_of_nodes() <= node_limit {
                        return Err(format!("stopped for NodeLimit with {} e-nodes, limit {}", eg.total_number_of_nodes(), node_limit));
                    }
                }
                StopReason::IterationLimit => {
                    obs.label("iteration-limit");
                    if rep.iterations <= iter_limit {
                        return Err(format!("stopped for IterationLimit after {} iterations, limit {}", rep.iterations, iter_limit));
                    }
                }
                StopReason::Other(e) => {
                    obs.label("hook");
                    match fail_at {
                        Some(k) if *e == format!("hook failed at {}", k) && rep.iterations == k + 1 => {}
                        _ => return Err(format!("stopped with Other({e}) after {} iterations, but the hook was to fail at {:?}", rep.iterations, fail_at)),
                    }
                }
                StopReason::TimeLimit => {
                    obs.label("time-limit");
                }
            }
            obs.nontrivial = rep.iterations >= 2 && !matches!(rep.stop_reason, StopReason::Other(_));
        }
        _ => {
            let fail_at = c.hook_fail_at.map(|x| x as usize);
            let counter = Rc::new(RefCell::new(0usize));
            let counter2 = counter.clone();
            let rep = run_eqsat(&mut eg, mk_rules(), iter_limit, 100_000, move |_eg| {
                let mut k = counter2.borrow_mut();
                let cur = *k;
                *k += 1;
                if Some(cur) == fail_at {
                    Err(format!("hook failed at {}", cur))
                } else {
                    Ok(())
                }
            });
            obs.cmp(3);
            if rep.egraph_nodes != eg.total_number_of_nodes() {
                return Err(format!("run_eqsat: report.egraph_nodes = {} but the e-graph has {}", rep.egraph_nodes, eg.total_number_of_nodes()));
            }
            if rep.egraph_classes != eg.ids().len() {
                return Err(format!("run_eqsat: report.egraph_classes = {} but the e-graph has {} live classes", rep.egraph_classes, eg.ids().len()));
            }
            let rounds = *counter.borrow();
            if rounds > iter_limit + 2 {
                return Err(format!("run_eqsat applied the rules {} times with an iteration limit of {}", rounds, iter_limit));
            }
            match &rep.stop_reason {
                StopReason::Saturated => {
                    obs.label("saturated");
                    let tr = tracked(&eg, &st.terms, &nm);
                    saturated_check(&mut eg, &rules_txt, &tr, obs)?;
                }
                StopReason::IterationLimit => {
                    obs.label("iteration-limit");
                    if rounds <= iter_limit {
                        return Err(format!("run_eqsat stopped for IterationLimit after {} rounds, limit {}", rounds, iter_limit));
                    }
                }
                StopReason::Other(e) => {
                    obs.label("hook");
                    match fail_at {
                        Some(k) if *e == format!("hook failed at {}", k) && rounds == k + 1 => {}
                        _ => return Err(format!("run_eqsat stopped with Other({e}) after {} rounds, hook was to fail at {:?}", rounds, fail_at)),
                    }
                }
                StopReason::NodeLimit => return Err("run_eqsat reported NodeLimit, which it has no limit for".into()),
                StopReason::TimeLimit => obs.label("time-limit"),
            }
            obs.nontrivial = rounds >= 2 && !matches!(rep.stop_reason, StopReason::Other(_));
        }
    }
    if rules_txt.iter().any(|r| ["f2-sym", "g3-rot", "g3-swap", "g3-drop", "f-sym", "sum2-swap", "sum-swap", "f2-v", "fg", "gh", "hf"].contains(&r.name)) {
        obs.label("symmetry-or-redundancy-only-rule");
    }
    Ok(())
}

// ---------------------------------------------------------------------------------------------
// a run whose time limit expires in the middle of an iteration (a searcher that takes long once)
// ---------------------------------------------------------------------------------------------

#[derive(Clone, Debug, PartialEq, Eq, Hash, Serialize, Deserialize)]
pub struct SlowCase {
    /// 1: Runner, 2: run_eqsat
    pub mode: u8,
    /// the slow rule's searcher sleeps on this call (0-based)
    pub sleep_on_call: u8,
    pub sleep_ms: u32,
    pub slow_first: bool,
    /// 0: (w ?a) => (w (w ?a)) on (w (v $a)); 1: (p ?a ?b) => (p (w ?a) ?b) on (p (v $a) c0)
    pub grow: u8,
}

fn run_slow(c: &SlowCase, obs: &mut Obs) -> Result<(), String> {
    let nm = Naming::Alpha;
    let (start, grow): (&str, RuleTxt) = if c.grow % 2 == 0 {
        ("(w (v $a))", RuleTxt { name: "w-grow", lhs: "(w ?a)", rhs: "(w (w ?a))", not_free: None, has_subst: false })
    } else {
        ("(p (v $a) c0)", RuleTxt { name: "p-grow", lhs: "(p ?a ?b)", rhs: "(p (w ?a) ?b)", not_free: None, has_subst: false })
    };
    let mut eg: EGraph<Core> = EGraph::default();
    let t0 = crate::tm::parse_tm_text(&LangId::Core.sig(), start)?;
    eg.add_expr(parse_tm::<Core>(&t0, &nm));
    let rules_txt = vec![grow.clone()];
    let calls = Rc::new(RefCell::new(0u32));
    let calls2 = calls.clone();
    let (on, ms) = (c.sleep_on_call as u32, c.sleep_ms as u64);
    let slow: Rewrite<Core, ()> = RewriteT {
        searcher: Box::new(move |_eg: &EGraph<Core, ()>| {
            let mut k = calls2.borrow_mut();
            if *k == on {
                std::thread::sleep(Duration::from_millis(ms));
            }
            *k += 1;
        }),
        applier: Box::new(|_: (), _eg: &mut EGraph<Core, ()>| {}),
    }
    .into();
    let mut rules: Vec<Rewrite<Core, ()>> = vec![build_rule::<Core, ()>(&grow)];
    if c.slow_first {
        rules.insert(0, slow);
    } else {
        rules.push(slow);
    }
    let iter_limit = 5usize;
    let (reason, nodes_reported) = if c.mode % 2 == 1 {
        let mut runner: Runner<Core, (), (), String> = Runner::new(()).with_egraph(eg).with_iter_limit(iter_limit).with_node_limit(10_000).with_time_limit(Duration::from_secs(1));
        let rep = runner.run(&rules);
        eg = runner.egraph;
        (rep.stop_reason, rep.egraph_nodes)
    } else {
        let rep = run_eqsat(&mut eg, rules, iter_limit, 1, |_eg| Ok(()));
        (rep.stop_reason, rep.egraph_nodes)
    };
    obs.cmp(2);
    if nodes_reported != eg.total_number_of_nodes() {
        return Err(format!("report.egraph_nodes = {} but the e-graph has {} e-nodes", nodes_reported, eg.total_number_of_nodes()));
    }
    match &reason {
        StopReason::Saturated => {
            obs.label("saturated");
            let tr = tracked(&eg, &[t0.clone()], &nm);
            saturated_check(&mut eg, &rules_txt, &tr, obs).map_err(|e| format!("a searcher took {} ms on its call {} with a time limit of 1 s; {e}", ms, on))?;
        }
        StopReason::TimeLimit => obs.label("time-limit"),
        StopReason::IterationLimit => obs.label("iteration-limit"),
        StopReason::NodeLimit => return Err("NodeLimit reported with a limit of 10000 e-nodes".into()),
        StopReason::Other(e) => return Err(format!("stopped with Other({e}) although no hook fails")),
    }
    obs.nontrivial = true;
    Ok(())
}

fn strategy(lang: LangId) -> BoxedStrategy<SatCase> {
    let mut cfg = MixedCfg::for_lang(lang);
    cfg.hist.namings = crate::tm::Naming::diverse();
    cfg.max_ops = 4;
    cfg.rewrite_p = 0;
    cfg.allow_extraction_subst = false;
    let npool = rule_pool(lang).len();
    (
        mixed_strategy(cfg),
        proptest::collection::vec(0usize..npool, 1..5),
        0u8..5,
        proptest::sample::select(vec![0u16, 1, 4, 12, 40, 400]),
        crate::engine::opt_weighted(0.3, 0u8..4),
        0u8..3,
        any::<bool>(),
        crate::engine::opt_weighted(0.3, (0u8..3, any::<u16>(), any::<u16>())),
        crate::engine::opt_weighted(0.35, -2i8..6),
    )
        .prop_map(|(base, rules, iter_limit, node_limit, hook_fail_at, mode, staged, hook_union, node_limit_rel)| SatCase { base, rules, iter_limit, node_limit, hook_fail_at, mode, staged, hook_union, node_limit_rel })
        .boxed()
}

/// Start e-graphs whose node count first grows and then shrinks while rewriting: several parents P_i(A) and P_i(C[A]) where the
/// context C rewrites away in two or three steps (q2-drop, ww, p-c0), so that the P_i(C[A]) collapse onto the P_i(A) by congruence
/// a few iterations into the run; the node limit lies at or just above the start size.
fn collapse_strategy() -> BoxedStrategy<SatCase> {
    use crate::tm::*;
    (proptest::collection::vec(any::<u16>(), 0..40), proptest::collection::vec(0usize..64, 0..3), 0u8..7, -2i8..6, crate::engine::opt_weighted(0.2, 0u8..4))
        .prop_map(|(ch, extra_rules, iter_limit, rel, hook_fail_at)| {
            let mut src = Src::new(&ch);
            let sig = LangId::Core.sig();
            let pool = rule_pool(LangId::Core);
            let kk = |t: Tm| Arg::K(vec![], t);
            let g = GenCfg { alphabet: 3, max_depth: 1, ops: Some(vec!["v", "c0", "f2", "c1", "w", "p"]), ..GenCfg::default() };
            let a = gen_tm(&sig, &g, &mut src, 0);
            let c0 = || Tm::node("c0", vec![]);
            let c1 = || Tm::node("c1", vec![]);
            let w = |t: Tm| Tm::node("w", vec![Arg::K(vec![], t)]);
            // contexts that rewrite to their hole in 1-3 iterations
            let ctx = match src.pick(5) {
                0 => Tm::node("q2", vec![Arg::S(7), kk(w(a.clone()))]),                          // q2-drop, then ww
                1 => Tm::node("p", vec![kk(w(w(a.clone()))), kk(c0())]),                          // ww, then p-c0 (or the other way round)
                2 => w(w(a.clone())),                                                             // ww
                3 => Tm::node("q2", vec![Arg::S(7), kk(w(Tm::node("p", vec![kk(a.clone()), kk(c0())])))]), // q2-drop, p-c0, ww
                _ => Tm::node("p", vec![kk(Tm::node("q2", vec![Arg::S(7), kk(w(a.clone()))])), kk(c0())]),
            };
            let parents: Vec<Box<dyn Fn(Tm) -> Tm>> = vec![
                Box::new(move |t| Tm::node("p", vec![Arg::K(vec![], t), Arg::K(vec![], Tm::node("c1", vec![]))])),
                Box::new(move |t| Tm::node("t3", vec![Arg::K(vec![], Tm::node("c1", vec![])), Arg::K(vec![], t), Arg::K(vec![], Tm::node("c1", vec![]))])),
                Box::new(move |t| Tm::node("lam", vec![Arg::K(vec![9], t)])),
                Box::new(move |t| Tm::node("p", vec![Arg::K(vec![], Tm::leaf("v", &[8])), Arg::K(vec![], t)])),
                Box::new(move |t| Tm::node("t3", vec![Arg::K(vec![], t.clone()), Arg::K(vec![], Tm::node("c1", vec![])), Arg::K(vec![], t)])),
            ];
            let _ = c1;
            let n_par = 2 + src.pick(4);
            let mut ops = Vec::new();
            for i in 0..n_par {
                let p = &parents[(i + src.pick(2)) % parents.len()];
                ops.push(MOp::Add(p(a.clone())));
                ops.push(MOp::Add(p(ctx.clone())));
            }
            let mut rules: Vec<usize> = ["q2-drop", "ww", "p-c0"].iter().map(|n| pool.iter().position(|r| r.name == *n).unwrap()).collect();
            rules.extend(extra_rules.iter().map(|i| i % pool.len()));
            let base = Mixed { lang: LangId::Core, naming: Naming::Alpha, ops, extraction_subst: false, rule_slot_variant: 0 };
            SatCase { base, rules, iter_limit, node_limit: 400, hook_fail_at, mode: 1, staged: false, hook_union: None, node_limit_rel: Some(rel) }
        })
        .boxed()
}

pub fn property(tier: Tier) -> Property {
    let mut stages: Vec<Box<dyn DynStage>> = Vec::new();
    for (name, lang, q, t) in [("sat-core", LangId::Core, 6000u32, 120_000u32), ("sat-lambda", LangId::Lambda, 1500, 30_000), ("sat-arith2", LangId::Arith2, 1500, 30_000), ("sat-fgh", LangId::Fgh, 1000, 20_000), ("sat-sdql", LangId::Sdql, 1000, 20_000)] {
        stages.push(Box::new(Stage {
            name,
            source: random(move || strategy(lang), tier.pick(q, t)),
            run,
            panic_is_violation: false,
            render: |c: &SatCase| {
                let pool = rule_pool(c.base.lang);
                format!(
                    "{} rules=[{}] iter_limit={} node_limit={} hook_fail_at={:?} staged={} hook_union={:?} mode={}",
                    c.base.render(),
                    c.rules.iter().map(|i| pool[*i % pool.len()].name).collect::<Vec<_>>().join(","),
                    c.iter_limit,
                    c.node_limit,
                    c.hook_fail_at,
                    c.staged,
                    c.hook_union,
                    ["apply_rewrites loop", "Runner", "run_eqsat"][(c.mode % 3) as usize]
                )
            },
            rule: "a start e-graph (insertions and unions), 1-4 rules of the language's pool (incl. rules that only add a symmetry or a redundancy), iteration limit 0-4, node limit in {0,1,4,12,40,400}, optionally a hook failing at a chosen iteration; driven by an apply_rewrites loop, Runner::run or run_eqsat; observable change measured by an independent fingerprint (node count, partition of all inserted (sub)terms by eq, slot and symmetry counts through eq); non-trivial = at least 2 iterations and a stop reason other than the hook; distinct by rendered case",
            case_timeout_s: tier.pick(30, 120),
            exhaustive: false,
        }));
    }
    if crate::config_name() == "default" {
        stages.push(Box::new(Stage {
            name: "sat-many-matches",
            source: Source::Enumerate(std::sync::Arc::new(move || {
                use crate::tm::*;
                let pool = rule_pool(LangId::Core);
                let ri = pool.iter().position(|r| r.name == "g6-p-drop").unwrap();
                let kk = |t: Tm| Arg::K(vec![], t);
                let mut out = Vec::new();
                // each case takes about half a minute of CPU: two cases in the quick tier, the whole family in the thorough tier
                let ns: Vec<usize> = if tier == Tier::Quick { vec![16] } else { vec![14, 15, 16, 17, 19, 24, 30] };
                for n in ns {
                    for mode in 0..3u8 {
                        if tier == Tier::Quick && mode == 2 {
                            continue;
                        }
                        let g = |p: &[Name]| Tm::leaf("g6", p);
                        let mut ops = Vec::new();
                        // n parents (p L M_i): L = (g6 a..f), M_i = w^i (p (g5 a b c d e) (v f)), an asymmetric class over the same six slots
                        for i in 0..n {
                            let mut m = Tm::node("p", vec![kk(Tm::leaf("g5", &[0, 1, 2, 3, 4])), kk(Tm::leaf("v", &[5]))]);
                            for _ in 0..i {
                                m = Tm::node("w", vec![kk(m)]);
                            }
                            ops.push(MOp::Add(Tm::node("p", vec![kk(g(&[0, 1, 2, 3, 4, 5])), kk(m)])));
                        }
                        // then g6 is made fully symmetric: a transposition and a 6-cycle
                        ops.extend(vec![MOp::Add(g(&[0, 1, 2, 3, 4, 5])), MOp::Add(g(&[1, 0, 2, 3, 4, 5])), MOp::Union(n, n + 1), MOp::Add(g(&[1, 2, 3, 4, 5, 0])), MOp::Union(n, n + 2)]);
                        let base = Mixed { lang: LangId::Core, naming: Naming::Alpha, ops, extraction_subst: false, rule_slot_variant: 0 };
                        out.push(SatCase { base, rules: vec![ri], iter_limit: 3, node_limit: 4000, hook_fail_at: None, mode, staged: false, hook_union: None, node_limit_rel: None });
                    }
                }
                Box::new(out.into_iter())
            })),
            run,
            panic_is_violation: false,
            render: |c: &SatCase| format!("{} parents (p (g6 a..f) M_i), M_i = w^i (p (g5 a..e) (v f)), g6 then made fully symmetric; rule g6-p-drop; mode={}", c.base.ops.iter().filter(|o| matches!(o, MOp::Add(t) if t.op == "p")).count(), ["apply_rewrites loop", "Runner", "run_eqsat"][(c.mode % 3) as usize]),
            rule: "fixed family: 14-30 parents (p L M_i) over a 6-slot leaf L that is then made fully symmetric and asymmetric classes M_i over the same slots; the rule (p (g6 $a..$f) ?x) => (w ?x) matches each parent in 720 ways (one per arrangement of L's arguments relative to M_i's), i.e. more than 10 000 matches of one rule in one call; the saturation report must be true (both sides of every match equal, one more round changes nothing); default build only",
            case_timeout_s: tier.pick(120, 480),
            exhaustive: true,
        }));
    }
    stages.push(Box::new(Stage {
        name: "sat-core-collapse",
        source: random(collapse_strategy, tier.pick(2000, 40_000)),
        run,
        panic_is_violation: false,
        render: |c: &SatCase| {
            let pool = rule_pool(c.base.lang);
            format!(
                "{} rules=[{}] iter_limit={} node_limit=start{:+} hook_fail_at={:?} mode=Runner",
                c.base.render(),
                c.rules.iter().map(|i| pool[*i % pool.len()].name).collect::<Vec<_>>().join(","),
                c.iter_limit,
                c.node_limit_rel.unwrap_or(0),
                c.hook_fail_at
            )
        },
        rule: "Runner on start e-graphs whose e-node count first grows and then shrinks: 2-5 parents over a term A and over a context around A that rewrites away in 1-3 iterations (q2-drop, ww, p-c0, plus 0-2 random rules), so that the parents collapse by congruence in a later iteration; iteration limit 0-6, node limit = start size -2..+5; stop reason must be true of the final e-graph, report must agree with it; non-trivial = at least 2 iterations",
        case_timeout_s: tier.pick(30, 120),
        exhaustive: false,
    }));
    stages.push(Box::new(Stage {
        name: "time-limit-inside-an-iteration",
        source: Source::Enumerate(std::sync::Arc::new(move || {
            let mut v = Vec::new();
            for mode in [1u8, 2] {
                for sleep_on_call in 0..tier.pick(2u8, 4) {
                    for slow_first in [false, true] {
                        for grow in 0..tier.pick(1u8, 2) {
                            v.push(SlowCase { mode, sleep_on_call, sleep_ms: 2300, slow_first, grow });
                        }
                    }
                }
            }
            Box::new(v.into_iter())
        })),
        run: run_slow,
        panic_is_violation: false,
        render: |c: &SlowCase| format!("{:?}", c),
        rule: "fixed family: a never-saturating rule next to a rule whose searcher takes 2.3 s on its k-th call (k = 0, 1; thorough 0-3), time limit 1 s, iteration limit 5, driven by Runner::run and run_eqsat: the limit expires in the middle of an iteration; whatever stop reason is reported must be true - Saturated is re-checked by matching and by one more round (the wall clock only provokes the situation, no verdict depends on it)",
        case_timeout_s: tier.pick(60, 120),
        exhaustive: false,
    }));
    Property { id: "C15", scale: tier.pick(5, 2), stages, assumptions: vec!["time limits are set far away; TimeLimit is never asserted about".into()] }
}
