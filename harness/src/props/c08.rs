//! C08 — no operation sequence panics or leaves the e-graph inconsistent.
use crate::analyses::MinSize;
use crate::engine::*;
use crate::langs::*;
use crate::mixed::*;
use slotted_egraphs::*;

/// the handle clauses alone (canonicalising twice = once, result alive), without touching anything else first
pub fn handle_invariants<L: Language, N: Analysis<L>>(eg: &EGraph<L, N>, handles: &[AppliedId]) -> Result<u64, String> {
    let mut cmp = 0u64;
    for h in handles {
        let f = eg.find_applied_id(h);
        let ff = eg.find_applied_id(&f);
        cmp += 1;
        if f != ff {
            return Err(format!("find is not idempotent: {:?} -> {:?} -> {:?}", h, f, ff));
        }
        if !eg.is_alive(f.id) {
            return Err(format!("find({:?}) = {:?} is not a live class", h, f));
        }
        if !eg.eq(h, &f) {
            return Err(format!("find({:?}) = {:?} does not compare equal to the handle itself", h, f));
        }
    }
    Ok(cmp)
}

pub fn invariants<L: Language, N: Analysis<L>>(eg: &EGraph<L, N>, handles: &[AppliedId]) -> Result<u64, String> {
    let mut cmp = 0u64;
    eg.check();
    let ids = eg.ids();
    let mut total = 0usize;
    for id in &ids {
        if !eg.is_alive(*id) {
            return Err(format!("ids() lists dead class {:?}", id));
        }
        let slots = eg.slots(*id);
        let ident = eg.mk_identity_applied_id(*id);
        for n in eg.enodes(*id) {
            total += 1;
            cmp += 3;
            if !n.slots().is_superset(&slots) {
                return Err(format!("e-node {:?} of class {:?} does not mention all class slots {:?}", n, id, slots));
            }
            match eg.lookup(&n) {
                None => return Err(format!("e-node {:?} listed for class {:?} cannot be looked up", n, id)),
                Some(a) => {
                    if a.id != *id {
                        return Err(format!("e-node {:?} listed for class {:?} looks up to class {:?}", n, id, a.id));
                    }
                    if !eg.eq(&a, &ident) {
                        return Err(format!("e-node {:?} of class {:?} looks up to {:?}, not equal to the identity invocation", n, id, a));
                    }
                }
            }
        }
    }
    if total != eg.total_number_of_nodes() {
        return Err(format!("sum of enodes() over live classes {} != total_number_of_nodes {}", total, eg.total_number_of_nodes()));
    }
    for (k, h) in handles.iter().enumerate() {
        let f = eg.find_applied_id(h);
        let ff = eg.find_applied_id(&f);
        cmp += 1;
        if f != ff {
            return Err(format!("find is not idempotent: {:?} -> {:?} -> {:?}", h, f, ff));
        }
        if !eg.is_alive(f.id) {
            return Err(format!("find({:?}) = {:?} is not a live class", h, f));
        }
        // the e-nodes listed for an *invocation* (enodes_applied: class e-nodes under the invocation's arguments, redundant and
        // bound slots refreshed) look up to that invocation, and mention no slot that is neither an argument nor new
        if k < 8 {
            let marker = Slot::fresh();
            for n in eg.enodes_applied(&f) {
                cmp += 1;
                match eg.lookup(&n) {
                    None => return Err(format!("e-node {:?} listed by enodes_applied({:?}) cannot be looked up", n, f)),
                    Some(a) => {
                        if !eg.eq(&a, &f) {
                            return Err(format!("e-node {:?} listed by enodes_applied({:?}) looks up to {:?}, which is not equal to the invocation", n, f, a));
                        }
                    }
                }
                for s in n.slots() {
                    if !f.slots().contains(&s) && !(s.to_string().starts_with("$f") && s > marker) {
                        return Err(format!("e-node {:?} listed by enodes_applied({:?}) has the free slot {:?}: neither an argument of the invocation nor a new slot", n, f, s));
                    }
                }
            }
        }
    }
    Ok(cmp)
}

pub fn run_case(c: &Mixed, obs: &mut Obs) -> Result<(), String> {
    run(c, obs)
}

pub fn stage_name(l: LangId) -> &'static str {
    match l {
        LangId::Core => "ops-core",
        LangId::Lambda => "ops-lambda",
        LangId::Arith => "ops-arith",
        LangId::Arith2 => "ops-arith2",
        LangId::Fgh => "ops-fgh",
        LangId::VarL => "ops-var",
        LangId::Sdql => "ops-sdql",
        LangId::ArrayLang => "ops-array",
        LangId::Rise => "ops-rise",
        LangId::Fp => "ops-fp",
        LangId::Pay => "ops-pay",
        LangId::Wide => "ops-wide",
    }
}

fn run(c: &Mixed, obs: &mut Obs) -> Result<(), String> {
    crate::with_lang!(c.lang, L => run_l::<L>(c, obs))
}

fn run_l<L: Language + 'static>(c: &Mixed, obs: &mut Obs) -> Result<(), String> {
    run_ln::<L, ()>(c, obs, ())
}

fn run_modify(c: &Mixed, obs: &mut Obs) -> Result<(), String> {
    run_ln::<Core, crate::analyses::WrapElim>(c, obs, crate::analyses::WrapElim)
}

fn run_analysis(c: &Mixed, obs: &mut Obs) -> Result<(), String> {
    crate::with_lang!(c.lang, L => run_ln::<L, MinSize>(c, obs, MinSize))
}

fn run_ln<L: Language + 'static, N: Analysis<L> + 'static>(c: &Mixed, obs: &mut Obs, n: N) -> Result<(), String> {
    if let Some(k) = crate::known::route_mixed(c) {
        obs.skip = Some(k);
        return Ok(());
    }
    let mut eg: EGraph<L, N> = new_egraph(n, c.extraction_subst);
    let pool = rule_pool(c.lang);
    let mut cmp = 0u64;
    let mut slot_dropped = false;
    let mut sym_created = false;
    let mut cascaded = false;
    let mut prev = eg.progress();
    // one case in three is observed only at its end, and there the old handles are canonicalised before anything else is
    // queried: every query (and check() in particular) compresses union-find paths, which would hide defects that need a
    // chain of several merges nobody looked at in between
    let lazy = {
        let mut h: u64 = 0xcbf29ce484222325;
        for b in c.render().as_bytes() {
            h ^= *b as u64;
            h = h.wrapping_mul(0x100000001b3);
        }
        h % 3 == 0
    };
    let n_ops = c.ops.len();
    let mut lazy_seen = false;
    let st = drive::<L, N>(c, &mut eg, &mut |eg, st, op| {
        if lazy {
            if st.step + 1 < n_ops {
                return Ok(());
            }
            lazy_seen = true;
            cmp += handle_invariants(eg, &st.handles)?;
        }
        cmp += invariants(eg, &st.handles)?;
        let pr = eg.progress();
        if pr.number_of_classes == prev.number_of_classes && pr.number_of_live_classes == prev.number_of_live_classes {
            if pr.sum_of_slots + 1 < prev.sum_of_slots {
                cascaded = true;
            }
        }
        if matches!(op, MOp::Union(..) | MOp::Rewrite(_)) {
            if pr.sum_of_slots < prev.sum_of_slots && pr.number_of_live_classes == prev.number_of_live_classes {
                slot_dropped = true;
            }
            if pr.sum_of_symmetries > prev.sum_of_symmetries && pr.number_of_live_classes == prev.number_of_live_classes {
                sym_created = true;
            }
        }
        prev = pr;
        // read-only operations must not panic either: matching and extraction
        if st.step % 2 == 1 || st.step + 1 == c.ops.len() {
            for r in pool.iter().take(4) {
                let pat: Pattern<L> = Pattern::parse(r.lhs).map_err(|e| format!("rule lhs does not parse: {e:?}"))?;
                let _ = ematch_all(eg, &pat);
            }
            let ex = Extractor::<L, AstSize>::new(eg, AstSize);
            for h in &st.handles {
                let t = ex.extract(h, eg);
                cmp += 1;
                if lookup_rec_expr(&t, eg).is_none() {
                    return Err(format!("extracted term {} of {:?} is not represented", t, h));
                }
            }
        }
        Ok(())
    })?;
    obs.cmp(cmp);
    if slot_dropped {
        obs.label("slot-dropped");
    }
    if sym_created {
        obs.label("symmetry-created");
    }
    if cascaded {
        obs.label("cascaded-shrink");
    }
    if st.terms.iter().any(|t| t.has_same_node_shadowing()) {
        obs.label("same-node-shadowing");
    }
    if st.rewrites_changed > 0 {
        obs.label("rewrite-changed");
    }
    if c.ops.iter().any(|o| matches!(o, MOp::AddSyn(_))) {
        obs.label("add_syn");
    }
    if st.handles.iter().any(|h| !eg.is_alive(h.id)) {
        obs.label("dead-handle-used");
    }
    if lazy_seen {
        obs.label("observed-only-at-the-end");
    }
    obs.nontrivial = st.effective_unions >= 3 || st.rewrites_changed >= 1;
    Ok(())
}

pub fn property(tier: Tier) -> Property {
    let mut stages: Vec<Box<dyn DynStage>> = Vec::new();
    let names: &[(&'static str, LangId)] = &[
        ("ops-core", LangId::Core),
        ("ops-lambda", LangId::Lambda),
        ("ops-arith", LangId::Arith),
        ("ops-arith2", LangId::Arith2),
        ("ops-fgh", LangId::Fgh),
        ("ops-var", LangId::VarL),
        ("ops-sdql", LangId::Sdql),
        ("ops-array", LangId::ArrayLang),
        ("ops-rise", LangId::Rise),
        ("ops-fp", LangId::Fp),
        ("ops-pay", LangId::Pay),
        ("ops-wide", LangId::Wide),
    ];
    for (name, l) in names {
        let mut cfg = MixedCfg::for_lang(*l);
        cfg.hist.namings = crate::tm::Naming::diverse();
        cfg.max_ops = tier.pick(10, 16);
        let n = if *l == LangId::Core { tier.pick(3000, 60_000) } else { tier.pick(600, 10_000) };
        stages.push(Box::new(Stage {
            name,
            source: random(move || mixed_strategy(cfg.clone()), n),
            run,
            panic_is_violation: true,
            render: |c: &Mixed| c.render(),
            rule: "operation sequences (add, add_syn, union by recipes, apply_rewrites with rules from the language's pool; ematch_all and extraction as read-only probes; two cases in three are checked after every operation, one in three only at the end with the old handles canonicalised first); non-trivial = at least 3 effective unions or a rewrite iteration that changed the e-graph; distinct by rendered sequence",
            case_timeout_s: tier.pick(30, 120),
            exhaustive: false,
        }));
    }
    for (name, l) in [("ops-core-analysis", LangId::Core), ("ops-lambda-analysis", LangId::Lambda), ("ops-arith-analysis", LangId::Arith)] {
        let mut cfg = MixedCfg::for_lang(l);
        cfg.hist.namings = crate::tm::Naming::diverse();
        cfg.max_ops = tier.pick(10, 16);
        let n = if l == LangId::Core { tier.pick(1500, 30_000) } else { tier.pick(500, 8_000) };
        stages.push(Box::new(Stage {
            name,
            source: random(move || mixed_strategy(cfg.clone()), n),
            run: run_analysis,
            panic_is_violation: true,
            render: |c: &Mixed| c.render(),
            rule: "the same operation sequences on an e-graph that carries an analysis (smallest term size), so that analysis-only re-processing of e-nodes is interleaved with structural re-processing; same invariants; non-trivial as above",
            case_timeout_s: tier.pick(30, 120),
            exhaustive: false,
        }));
    }
    {
        let mut cfg = MixedCfg::for_lang(LangId::Core);
        cfg.max_ops = tier.pick(10, 16);
        cfg.hist.namings = crate::tm::Naming::diverse();
        // 4-slot leaves at most, few rewrite steps: with explanations compiled in, proofs over 120-element groups and rule sets
        // that grow the e-graph make single cases run for tens of seconds (bounded by generated size, not by time)
        cfg.hist.gen.alphabet = 5;
        cfg.hist.gen.max_fv = 4;
        cfg.hist.gen.max_depth = 2;
        cfg.rewrite_p = 1;
        cfg.no_subst_rules = true;
        cfg.allow_extraction_subst = false;
        cfg.hist.gen.ops = Some(vec!["v", "f2", "g3", "g4", "h4", "c0", "p", "w", "lam"]);
        cfg.hist.weights = [1, 1, 4, 3, 1, 2, 3, 1, 4, 1, 2, 5, 3];
        stages.push(Box::new(Stage {
            name: "ops-core-wide",
            source: random(move || mixed_strategy(cfg.clone()), tier.pick(1500, 30_000)),
            run,
            panic_is_violation: true,
            render: |c: &Mixed| c.render(),
            rule: "as ops-core, over a 5-name alphabet with leaves of up to 4 slots (symmetries that are products of cycles, several slots redundant in one step, orbits cut in the middle); same invariants",
            case_timeout_s: tier.pick(30, 120),
            exhaustive: false,
        }));
    }
    if crate::config_name() != "explanations" {
        // e-nodes and classes with more slots than the inline capacities of the library's small collections (8 for slot sets,
        // 10 for slot maps): parents over two or three 4-6 slot leaves with disjoint names
        let mut cfg = MixedCfg::for_lang(LangId::Core);
        cfg.max_ops = tier.pick(7, 10);
        cfg.hist.namings = crate::tm::Naming::diverse();
        cfg.hist.gen.alphabet = 16;
        cfg.hist.gen.max_fv = 16;
        cfg.hist.gen.max_depth = 2;
        cfg.rewrite_p = 1;
        cfg.no_subst_rules = true;
        cfg.allow_extraction_subst = false;
        cfg.hist.gen.ops = Some(vec!["g4", "g5", "g6", "h4", "v", "p", "t3", "w", "lam"]);
        // no recipe that makes a wide class symmetric: two random permutations of 12 points generate a group with millions of
        // elements, which the library (by design) enumerates when it canonicalises a parent node
        cfg.hist.weights = [3, 2, 0, 5, 1, 0, 2, 0, 0, 2, 0, 0, 0];
        stages.push(Box::new(Stage {
            name: "ops-core-many-slots",
            source: random(move || mixed_strategy(cfg.clone()), tier.pick(1500, 30_000)),
            run,
            panic_is_violation: true,
            render: |c: &Mixed| c.render(),
            rule: "as ops-core, over a 16-name alphabet: terms with up to 16 free slots (p / t3 over 4-6 slot leaves with mostly disjoint names), beyond the inline capacities (8, 10) of the library's slot sets and slot maps; unions by the unrelated / renamed-copy (redundancy) / context / cascade recipes only (no symmetric wide classes: the library enumerates a class's whole group); same invariants; not run in the explanations build (proof terms over such nodes take seconds)",
            case_timeout_s: tier.pick(30, 120),
            exhaustive: false,
        }));
    }
    {
        let mut cfg = MixedCfg::for_lang(LangId::Core);
        cfg.max_ops = tier.pick(10, 16);
        cfg.hist.namings = crate::tm::Naming::diverse();
        cfg.hist.gen.ops = Some(vec!["v", "f2", "g3", "c0", "c0", "w", "w", "w", "p", "p", "lam"]);
        stages.push(Box::new(Stage {
            name: "ops-core-modify-hook",
            source: random(move || mixed_strategy(cfg.clone()), tier.pick(2000, 40_000)),
            run: run_modify,
            panic_is_violation: true,
            render: |c: &Mixed| c.render(),
            rule: "as ops-core, on e-graphs with an analysis whose modify hook asserts w(w(x)) = x and (p x c0) = c0 by unions of its own (a class is merged away during the insertion that creates it; unions happen inside rebuilds); same invariants",
            case_timeout_s: tier.pick(30, 120),
            exhaustive: false,
        }));
    }
    Property {
        id: "C08", scale: tier.pick(4, 2),
        stages,
        assumptions: vec!["only well-formed inputs: terms produced by the parser from model terms, invocations returned by the API".into()],
    }
}
