//! C07 — explanations are valid proofs of the queried equation (feature `explanations`).
//!
//! Independent proof checker working on *terms*: every node of the proof DAG is re-checked, the
//! leaves must be instances of equations the harness asserted with exactly that justification.

use crate::engine::*;
use crate::mixed::*;
#[cfg(feature = "explanations")]
use crate::tm::*;

#[cfg(feature = "explanations")]
mod imp {
    use super::*;
    use crate::egx::*;
    use crate::pat;
    use slotted_egraphs::*;
    use std::collections::{BTreeMap, BTreeSet, HashMap};

    /// terms with real slots as names
    #[derive(Clone, PartialEq, Eq, Hash, Debug)]
    pub struct ST {
        pub op: String,
        pub args: Vec<SA>,
    }
    #[derive(Clone, PartialEq, Eq, Hash, Debug)]
    pub enum SA {
        S(Slot),
        K(Vec<Slot>, ST),
        P(String),
    }

    pub fn to_st<L: Language>(re: &RecExpr<L>, sig: &LangSig) -> Result<ST, String> {
        let syn = re.node.to_syntax();
        // operator: first element if it is a string naming an operator with matching fields; payload-only variants have a single string
        let (op, rest): (String, &[SyntaxElem]) = match syn.first() {
            Some(SyntaxElem::String(s)) if sig.op(s).is_some() && !s.is_empty() => (s.clone(), &syn[1..]),
            _ => (String::new(), &syn[..]),
        };
        let o = if op.is_empty() {
            // payload variant
            let SyntaxElem::String(p) = &rest[0] else { return Err("payload expected".into()) };
            return Ok(ST { op, args: vec![SA::P(p.clone())] });
        } else {
            sig.op(&op).unwrap().clone()
        };
        let mut args = Vec::new();
        let mut i = 0;
        let mut kid = 0;
        for f in &o.fields {
            match f {
                Field::Slot => {
                    let SyntaxElem::Slot(s) = &rest[i] else { return Err(format!("slot expected in {}", op)) };
                    args.push(SA::S(*s));
                    i += 1;
                }
                Field::PayU32 | Field::PaySym | Field::PayOther(_) => {
                    let SyntaxElem::String(p) = &rest[i] else { return Err("payload expected".into()) };
                    args.push(SA::P(p.clone()));
                    i += 1;
                }
                Field::Kid(nb) => {
                    let mut bs = Vec::new();
                    for _ in 0..*nb {
                        let SyntaxElem::Slot(s) = &rest[i] else { return Err(format!("binder expected in {}", op)) };
                        bs.push(*s);
                        i += 1;
                    }
                    i += 1; // the child placeholder
                    args.push(SA::K(bs, to_st(&re.children[kid], sig)?));
                    kid += 1;
                }
            }
        }
        Ok(ST { op, args })
    }

    impl ST {
        pub fn fv(&self) -> BTreeSet<Slot> {
            fn go(t: &ST, bound: &mut Vec<Slot>, out: &mut BTreeSet<Slot>) {
                for a in &t.args {
                    match a {
                        SA::S(s) => {
                            if !bound.contains(s) {
                                out.insert(*s);
                            }
                        }
                        SA::P(_) => {}
                        SA::K(bs, k) => {
                            let l = bound.len();
                            bound.extend(bs.iter().copied());
                            go(k, bound, out);
                            bound.truncate(l);
                        }
                    }
                }
            }
            let mut out = BTreeSet::new();
            go(self, &mut Vec::new(), &mut out);
            out
        }

        /// rename free slots (capture cannot happen: callers only rename to slots that are not bound anywhere in the term, or check)
        pub fn rename_free(&self, m: &BTreeMap<Slot, Slot>) -> ST {
            fn go(t: &ST, m: &BTreeMap<Slot, Slot>, bound: &mut Vec<Slot>) -> ST {
                ST {
                    op: t.op.clone(),
                    args: t
                        .args
                        .iter()
                        .map(|a| match a {
                            SA::S(s) => {
                                if bound.contains(s) {
                                    SA::S(*s)
                                } else {
                                    SA::S(*m.get(s).unwrap_or(s))
                                }
                            }
                            SA::P(p) => SA::P(p.clone()),
                            SA::K(bs, k) => {
                                // alpha-rename binders that collide with a target name
                                let targets: BTreeSet<Slot> = m.values().copied().collect();
                                let mut k2 = k.clone();
                                let mut nbs = bs.clone();
                                for (i, b) in bs.iter().enumerate() {
                                    if targets.contains(b) && !bs[i + 1..].contains(b) {
                                        let nb = Slot::fresh();
                                        let mut mm = BTreeMap::new();
                                        mm.insert(*b, nb);
                                        k2 = k2.rename_free(&mm);
                                        nbs[i] = nb;
                                    }
                                }
                                let l = bound.len();
                                bound.extend(nbs.iter().copied());
                                let r = go(&k2, m, bound);
                                bound.truncate(l);
                                SA::K(nbs, r)
                            }
                        })
                        .collect(),
                }
            }
            go(self, m, &mut Vec::new())
        }

        pub fn show(&self) -> String {
            let mut parts: Vec<String> = Vec::new();
            if !self.op.is_empty() {
                parts.push(self.op.clone());
            }
            for a in &self.args {
                match a {
                    SA::S(s) => parts.push(s.to_string()),
                    SA::P(p) => parts.push(p.clone()),
                    SA::K(bs, k) => {
                        for b in bs {
                            parts.push(b.to_string());
                        }
                        parts.push(k.show());
                    }
                }
            }
            if parts.len() == 1 {
                parts[0].clone()
            } else {
                format!("({})", parts.join(" "))
            }
        }
    }

    /// Match a against b structurally: bound slots positionally (alpha), free slots of a are
    /// mapped to free slots of b by `theta` (a function, extended as needed). Injectivity is the caller's business.
    pub fn match_into(a: &ST, b: &ST, theta: &mut BTreeMap<Slot, Slot>) -> bool {
        fn go(a: &ST, b: &ST, theta: &mut BTreeMap<Slot, Slot>, ba: &mut Vec<Slot>, bb: &mut Vec<Slot>) -> bool {
            if a.op != b.op || a.args.len() != b.args.len() {
                return false;
            }
            for (x, y) in a.args.iter().zip(b.args.iter()) {
                match (x, y) {
                    (SA::S(s), SA::S(t)) => {
                        let pa = ba.iter().rposition(|z| z == s);
                        let pb = bb.iter().rposition(|z| z == t);
                        match (pa, pb) {
                            (Some(i), Some(j)) => {
                                if i != j {
                                    return false;
                                }
                            }
                            (None, None) => match theta.get(s) {
                                Some(u) => {
                                    if u != t {
                                        return false;
                                    }
                                }
                                None => {
                                    theta.insert(*s, *t);
                                }
                            },
                            _ => return false,
                        }
                    }
                    (SA::P(p), SA::P(q)) => {
                        if p != q {
                            return false;
                        }
                    }
                    (SA::K(bs, k), SA::K(cs, l)) => {
                        if bs.len() != cs.len() {
                            return false;
                        }
                        let (la, lb) = (ba.len(), bb.len());
                        ba.extend(bs.iter().copied());
                        bb.extend(cs.iter().copied());
                        let r = go(k, l, theta, ba, bb);
                        ba.truncate(la);
                        bb.truncate(lb);
                        if !r {
                            return false;
                        }
                    }
                    _ => return false,
                }
            }
            true
        }
        go(a, b, theta, &mut Vec::new(), &mut Vec::new())
    }

    pub fn injective_on(theta: &BTreeMap<Slot, Slot>, dom: &BTreeSet<Slot>) -> bool {
        let mut seen = BTreeSet::new();
        for s in dom {
            if let Some(v) = theta.get(s) {
                if !seen.insert(*v) {
                    return false;
                }
            }
        }
        true
    }

    pub fn alpha_eq(a: &ST, b: &ST) -> bool {
        let mut th = BTreeMap::new();
        match_into(a, b, &mut th) && th.iter().all(|(k, v)| k == v)
    }

    /// (pl, pr) is a premise; is (l, r) an instance of it under one renaming that is injective on each side?
    pub fn instance_of(pl: &ST, pr: &ST, l: &ST, r: &ST) -> bool {
        let mut th = BTreeMap::new();
        match_into(pl, l, &mut th) && match_into(pr, r, &mut th) && injective_on(&th, &pl.fv()) && injective_on(&th, &pr.fv())
    }

    /// the conclusion of an explanation: the queried equation up to ONE renaming that is injective on all slots of the
    /// equation together (a proof of a more general equation - two slots of the query kept apart - is not the queried one)
    pub fn same_equation(pl: &ST, pr: &ST, l: &ST, r: &ST) -> bool {
        let mut th = BTreeMap::new();
        let mut all = pl.fv();
        all.extend(pr.fv());
        match_into(pl, l, &mut th) && match_into(pr, r, &mut th) && injective_on(&th, &all)
    }

    pub struct Asserted {
        pub just: String,
        pub l: ST,
        pub r: ST,
    }

    pub struct RuleAsserted {
        pub name: String,
        pub lhs: Tm,
        pub rhs: Tm,
    }

    #[derive(Default)]
    pub struct ProofStats {
        pub nodes: u64,
        pub congruence: u64,
        pub explicit: u64,
        pub under_binder: bool,
        pub rule_leaf: bool,
        pub tolerated_d18: u64,
    }

    /// collision-free rendering of one side of a proof equation
    pub fn render<L: Language, N: Analysis<L>>(eg: &EGraph<L, N>, a: &AppliedId, sig: &LangSig) -> Result<ST, String> {
        // rename the arguments injectively to brand-new names, read the term, rename back
        let mut to_fresh = SlotMap::new();
        let mut back: BTreeMap<Slot, Slot> = BTreeMap::new();
        for s in a.slots().iter() {
            let f = Slot::fresh();
            to_fresh.insert(*s, f);
            back.insert(f, *s);
        }
        let a2 = a.apply_slotmap(&to_fresh);
        let t = to_st(&eg.get_syn_expr(&a2), sig)?;
        let clean = t.rename_free(&back);
        // sub-check: reading under the original names gives the same term up to bound names
        let direct = to_st(&eg.get_syn_expr(a), sig)?;
        if !alpha_eq(&direct, &clean) {
            return Err(format!("get_syn_expr({:?}) renders {} but the collision-free rendering is {} (a bound name captured an argument)", a, direct.show(), clean.show()));
        }
        Ok(clean)
    }

    /// term-level pattern matching of a model pattern against a term: pattern slots -> term slots (theta), variables -> terms (sigma)
    fn pmatch(p: &Tm, t: &ST, sigma: &mut BTreeMap<String, (ST, Vec<Slot>, Vec<Name>)>, theta: &mut BTreeMap<Name, Slot>, bp: &mut Vec<Name>, bt: &mut Vec<Slot>) -> bool {
        if pat::is_pvar(p) {
            let v = pat::pvar_name(p).to_string();
            match sigma.get(&v) {
                None => {
                    sigma.insert(v, (t.clone(), bt.clone(), bp.clone()));
                    true
                }
                Some((old, obt, obp)) => {
                    // the two occurrences must denote the same term once each one's bound slots are read through the pattern's bound names
                    let key = |term: &ST, bt: &Vec<Slot>, bp: &Vec<Name>| -> ST {
                        let mut m = BTreeMap::new();
                        for (s, n) in bt.iter().zip(bp.iter()) {
                            m.insert(*s, Slot::numeric(1_000_000 + *n as u32));
                        }
                        term.rename_free(&m)
                    };
                    alpha_eq(&key(old, obt, obp), &key(t, bt, bp))
                }
            }
        } else {
            if p.op != t.op || p.args.len() != t.args.len() {
                return false;
            }
            for (x, y) in p.args.iter().zip(t.args.iter()) {
                match (x, y) {
                    (Arg::S(n), SA::S(s)) => {
                        let pa = bp.iter().rposition(|z| z == n);
                        let pb = bt.iter().rposition(|z| z == s);
                        match (pa, pb) {
                            (Some(i), Some(j)) => {
                                if i != j {
                                    return false;
                                }
                            }
                            (None, None) => match theta.get(n) {
                                Some(u) => {
                                    if u != s {
                                        return false;
                                    }
                                }
                                None => {
                                    theta.insert(*n, *s);
                                }
                            },
                            _ => return false,
                        }
                    }
                    (Arg::P(a), SA::P(b)) => {
                        if a != b {
                            return false;
                        }
                    }
                    (Arg::K(bs, k), SA::K(cs, l)) => {
                        if bs.len() != cs.len() {
                            return false;
                        }
                        let (la, lb) = (bp.len(), bt.len());
                        bp.extend(bs.iter().copied());
                        bt.extend(cs.iter().copied());
                        let r = pmatch(k, l, sigma, theta, bp, bt);
                        bp.truncate(la);
                        bt.truncate(lb);
                        if !r {
                            return false;
                        }
                    }
                    _ => return false,
                }
            }
            true
        }
    }

    fn keyed(term: &ST, bt: &Vec<Slot>, bp: &Vec<Name>) -> ST {
        let mut m = BTreeMap::new();
        for (s, n) in bt.iter().zip(bp.iter()) {
            m.insert(*s, Slot::numeric(1_000_000 + *n as u32));
        }
        term.rename_free(&m)
    }

    /// 0 = no instance; 1 = strict instance; 2 = instance only if the two sides may instantiate a variable by terms
    /// that differ in names occurring on one side of the leaf only (known finding D18)
    fn rule_instance(ra: &RuleAsserted, l: &ST, r: &ST) -> u8 {
        {
            let mut sigma = BTreeMap::new();
            let mut theta = BTreeMap::new();
            if pmatch(&ra.lhs, l, &mut sigma, &mut theta, &mut Vec::new(), &mut Vec::new()) {
                // pattern slots are pairwise distinct slots
                let vals: BTreeSet<Slot> = theta.values().copied().collect();
                if vals.len() != theta.len() {
                    return 0;
                }
                // the right side must match with the same sigma / theta (new pattern slots of the right side may be bound to anything)
                if pmatch(&ra.rhs, r, &mut sigma, &mut theta, &mut Vec::new(), &mut Vec::new()) {
                    return 1;
                }
            }
        }
        // lenient: every occurrence of a variable is read on its own; occurrences of one variable may differ in slots
        // that occur in that single occurrence only (fresh names in argument positions the class does not depend on)
        let mut occs: Vec<(String, ST)> = Vec::new();
        let mut th2 = BTreeMap::new();
        if !pcollect(&ra.lhs, l, &mut occs, &mut th2, &mut Vec::new(), &mut Vec::new()) || !pcollect(&ra.rhs, r, &mut occs, &mut th2, &mut Vec::new(), &mut Vec::new()) {
            return 0;
        }
        let vals: BTreeSet<Slot> = th2.values().copied().collect();
        if vals.len() != th2.len() {
            return 0;
        }
        let mut count: BTreeMap<Slot, usize> = BTreeMap::new();
        for (_, t) in &occs {
            for s in t.fv() {
                *count.entry(s).or_insert(0) += 1;
            }
        }
        let unique = |s: &Slot| count.get(s) == Some(&1) && !vals.contains(s);
        for (i, (v, t)) in occs.iter().enumerate() {
            if let Some((_, first)) = occs.iter().take(i).find(|(w, _)| w == v) {
                let mut th = BTreeMap::new();
                if !match_into(first, t, &mut th) {
                    return 0;
                }
                for (a, b) in &th {
                    if a != b && !(unique(a) && unique(b)) {
                        return 0;
                    }
                }
            }
        }
        2
    }

    /// like pmatch, but every occurrence of a pattern variable is recorded separately (bound slots read through the pattern's bound names)
    fn pcollect(p: &Tm, t: &ST, occs: &mut Vec<(String, ST)>, theta: &mut BTreeMap<Name, Slot>, bp: &mut Vec<Name>, bt: &mut Vec<Slot>) -> bool {
        if pat::is_pvar(p) {
            occs.push((pat::pvar_name(p).to_string(), keyed(t, bt, bp)));
            return true;
        }
        if p.op != t.op || p.args.len() != t.args.len() {
            return false;
        }
        for (x, y) in p.args.iter().zip(t.args.iter()) {
            match (x, y) {
                (Arg::S(n), SA::S(s)) => {
                    let pa = bp.iter().rposition(|z| z == n);
                    let pb = bt.iter().rposition(|z| z == s);
                    match (pa, pb) {
                        (Some(i), Some(j)) => {
                            if i != j {
                                return false;
                            }
                        }
                        (None, None) => match theta.get(n) {
                            Some(u) => {
                                if u != s {
                                    return false;
                                }
                            }
                            None => {
                                theta.insert(*n, *s);
                            }
                        },
                        _ => return false,
                    }
                }
                (Arg::P(a), SA::P(b)) => {
                    if a != b {
                        return false;
                    }
                }
                (Arg::K(bs, k), SA::K(cs, l)) => {
                    if bs.len() != cs.len() {
                        return false;
                    }
                    let (la, lb) = (bp.len(), bt.len());
                    bp.extend(bs.iter().copied());
                    bt.extend(cs.iter().copied());
                    let r = pcollect(k, l, occs, theta, bp, bt);
                    bp.truncate(la);
                    bt.truncate(lb);
                    if !r {
                        return false;
                    }
                }
                _ => return false,
            }
        }
        true
    }

    pub fn check_proof<L: Language, N: Analysis<L>>(
        eg: &EGraph<L, N>,
        sig: &LangSig,
        root: &ProvenEq,
        asserted: &[Asserted],
        rules: &[RuleAsserted],
        stats: &mut ProofStats,
    ) -> Result<(), String> {
        // iterative post-order over the DAG, memoised by pointer
        let mut done: HashMap<*const ProvenEqRaw, (ST, ST)> = HashMap::new();
        let mut stack: Vec<&ProvenEq> = vec![root];
        while let Some(p) = stack.last().copied() {
            let ptr = std::sync::Arc::as_ptr(p);
            if done.contains_key(&ptr) {
                stack.pop();
                continue;
            }
            let subs: Vec<&ProvenEq> = match p.proof() {
                Proof::Explicit(_) | Proof::Reflexivity(_) => vec![],
                Proof::Symmetry(SymmetryProof(x)) => vec![x],
                Proof::Transitivity(TransitivityProof(x, y)) => vec![x, y],
                Proof::Congruence(CongruenceProof(xs)) => xs.iter().collect(),
            };
            let mut pending = false;
            for s in &subs {
                if !done.contains_key(&std::sync::Arc::as_ptr(s)) {
                    stack.push(s);
                    pending = true;
                }
            }
            if pending {
                continue;
            }
            stack.pop();
            let eq = p.equ();
            let l = render(eg, &eq.l, sig)?;
            let r = render(eg, &eq.r, sig)?;
            stats.nodes += 1;
            let get = |q: &ProvenEq| done[&std::sync::Arc::as_ptr(q)].clone();
            let here = format!("{} = {}", l.show(), r.show());
            match p.proof() {
                Proof::Reflexivity(_) => {
                    if !alpha_eq(&l, &r) {
                        return Err(format!("reflexivity step proves {here}"));
                    }
                }
                Proof::Symmetry(SymmetryProof(x)) => {
                    let (xl, xr) = get(x);
                    if !instance_of(&xr, &xl, &l, &r) {
                        return Err(format!("symmetry step proves {here} from {} = {}", xl.show(), xr.show()));
                    }
                }
                Proof::Transitivity(TransitivityProof(x, y)) => {
                    let (xl, xr) = get(x);
                    let (yl, yr) = get(y);
                    // theta1 on x, theta2 on y:  xl.theta1 = l,  xr.theta1 = yl.theta2,  yr.theta2 = r
                    let mut t1 = BTreeMap::new();
                    let mut t2 = BTreeMap::new();
                    let mut mid = BTreeMap::new(); // bijection between free slots of xr and yl
                    let ok = match_into(&xl, &l, &mut t1) && match_into(&yr, &r, &mut t2) && match_into(&xr, &yl, &mut mid);
                    if !ok {
                        return Err(format!("transitivity step proves {here} from {} = {} and {} = {}: shapes do not fit", xl.show(), xr.show(), yl.show(), yr.show()));
                    }
                    let mid_vals: BTreeSet<Slot> = mid.values().copied().collect();
                    if mid_vals.len() != mid.len() {
                        return Err(format!("transitivity step proves {here}: the middle terms {} and {} are not renamings of each other", xr.show(), yl.show()));
                    }
                    for (a, b) in &mid {
                        match (t1.get(a).copied(), t2.get(b).copied()) {
                            (Some(u), Some(v)) => {
                                if u != v {
                                    return Err(format!("transitivity step proves {here} from {} = {} and {} = {}: the middle terms are instantiated differently", xl.show(), xr.show(), yl.show(), yr.show()));
                                }
                            }
                            (Some(u), None) => {
                                t2.insert(*b, u);
                            }
                            (None, Some(v)) => {
                                t1.insert(*a, v);
                            }
                            (None, None) => {
                                let f = Slot::fresh();
                                t1.insert(*a, f);
                                t2.insert(*b, f);
                            }
                        }
                    }
                    if !(injective_on(&t1, &xl.fv()) && injective_on(&t1, &xr.fv()) && injective_on(&t2, &yl.fv()) && injective_on(&t2, &yr.fv())) {
                        return Err(format!("transitivity step proves {here} from {} = {} and {} = {}: needs a renaming that is not injective on a side of a premise", xl.show(), xr.show(), yl.show(), yr.show()));
                    }
                }
                Proof::Congruence(CongruenceProof(xs)) => {
                    stats.congruence += 1;
                    if l.op != r.op || l.args.len() != r.args.len() {
                        return Err(format!("congruence step proves {here}: different operators"));
                    }
                    let mut k = 0;
                    for (a, b) in l.args.iter().zip(r.args.iter()) {
                        match (a, b) {
                            (SA::S(s), SA::S(t)) => {
                                if s != t {
                                    return Err(format!("congruence step proves {here}: the nodes differ in a slot"));
                                }
                            }
                            (SA::P(p), SA::P(q)) => {
                                if p != q {
                                    return Err(format!("congruence step proves {here}: the nodes differ in a payload"));
                                }
                            }
                            (SA::K(bs, x), SA::K(cs, y)) => {
                                if bs.len() != cs.len() || k >= xs.len() {
                                    return Err(format!("congruence step proves {here}: binder / child count mismatch"));
                                }
                                if !bs.is_empty() {
                                    stats.under_binder = true;
                                }
                                // bring both children under common bound names
                                let mut ma = BTreeMap::new();
                                let mut mb = BTreeMap::new();
                                for (u, v) in bs.iter().zip(cs.iter()) {
                                    let f = Slot::fresh();
                                    ma.insert(*u, f);
                                    mb.insert(*v, f);
                                }
                                let x2 = x.rename_free(&ma);
                                let y2 = y.rename_free(&mb);
                                let (pl, pr) = get(&xs[k]);
                                if !instance_of(&pl, &pr, &x2, &y2) {
                                    return Err(format!("congruence step proves {here}: child {} ({} = {}) is not an instance of its premise {} = {}", k, x2.show(), y2.show(), pl.show(), pr.show()));
                                }
                                k += 1;
                            }
                            _ => return Err(format!("congruence step proves {here}: different node structure")),
                        }
                    }
                    if k != xs.len() {
                        return Err(format!("congruence step proves {here}: {} premises for {} children", xs.len(), k));
                    }
                }
                Proof::Explicit(ExplicitProof(j)) => {
                    stats.explicit += 1;
                    let Some(j) = j else { return Err(format!("explicit leaf {here} without a justification")) };
                    let mut ok = false;
                    for a in asserted.iter().filter(|a| &a.just == j) {
                        if instance_of(&a.l, &a.r, &l, &r) {
                            ok = true;
                            break;
                        }
                    }
                    if !ok {
                        for ra in rules.iter().filter(|ra| &ra.name == j) {
                            match rule_instance(ra, &l, &r) {
                                1 => {
                                    ok = true;
                                    stats.rule_leaf = true;
                                    break;
                                }
                                2 if crate::known::is_open("D18") => {
                                    // tolerated while the finding is open; strict in replay mode
                                    ok = true;
                                    stats.rule_leaf = true;
                                    stats.tolerated_d18 += 1;
                                    break;
                                }
                                _ => {}
                            }
                        }
                    }
                    if !ok {
                        return Err(format!("leaf {here} with justification {:?} is not an instance of anything asserted under that justification", j));
                    }
                }
            }
            done.insert(ptr, (l, r));
        }
        Ok(())
    }

    pub fn run_l<L: Language + 'static>(c: &Mixed, obs: &mut Obs) -> Result<(), String> {
        let sig = c.lang.sig();
        let nm = &c.naming;
        let pool = rule_pool(c.lang);
        let mut eg: EGraph<L> = new_egraph((), false);
        let mut asserted: Vec<Asserted> = Vec::new();
        let mut rules: Vec<RuleAsserted> = Vec::new();
        let terms_all = c.terms();
        let st = drive::<L, ()>(c, &mut eg, &mut |_, st, op| {
            match op {
                MOp::Union(i, j) => {
                    if *i < st.terms.len() && *j < st.terms.len() {
                        let l = to_st(&parse_tm::<L>(&st.terms[*i], nm), &sig)?;
                        let r = to_st(&parse_tm::<L>(&st.terms[*j], nm), &sig)?;
                        asserted.push(Asserted { just: format!("u{}_{}", i, j), l, r });
                    }
                }
                MOp::Rewrite(rs) => {
                    for i in rs {
                        let rt = &pool[*i % pool.len()];
                        if !rules.iter().any(|r| r.name == rt.name) {
                            rules.push(RuleAsserted { name: rt.name.to_string(), lhs: pat::parse_pat_text(&sig, rt.lhs)?, rhs: pat::parse_pat_text(&sig, rt.rhs)? });
                        }
                    }
                }
                _ => {}
            }
            Ok(())
        })?;
        let _ = terms_all;
        // every pair of inserted terms the e-graph reports equal is explained
        let mut stats = ProofStats::default();
        let mut explained: u64 = 0;
        let n = st.handles.len();
        let mut uses_sym3 = false;
        for i in 0..n {
            for j in i + 1..n {
                if !eg.eq(&st.handles[i], &st.handles[j]) {
                    continue;
                }
                let ta = parse_tm::<L>(&st.terms[i], nm);
                let tb = parse_tm::<L>(&st.terms[j], nm);
                let proof = eg.explain_equivalence(ta.clone(), tb.clone());
                explained += 1;
                // conclusion = the queried equation up to an injective renaming
                let eq = proof.equ();
                let pl = render(&eg, &eq.l, &sig)?;
                let pr = render(&eg, &eq.r, &sig)?;
                let ql = to_st(&ta, &sig)?;
                let qr = to_st(&tb, &sig)?;
                if !same_equation(&pl, &pr, &ql, &qr) {
                    return Err(format!("explanation of t{} = t{} concludes {} = {} instead of {} = {}", i, j, pl.show(), pr.show(), ql.show(), qr.show()));
                }
                check_proof(&eg, &sig, &proof, &asserted, &rules, &mut stats).map_err(|e| format!("explanation of t{} = t{} ({} = {}): {}", i, j, ql.show(), qr.show(), e))?;
                // the printed form must be producible
                let _ = proof.to_string(&eg);
            }
        }
        // equal terms that were never inserted: a term with an occurrence of one union operand replaced by the other
        let unions: Vec<(usize, usize)> = c.ops.iter().filter_map(|o| if let MOp::Union(a, b) = o { Some((*a, *b)) } else { None }).collect();
        let mut probes = 0;
        'outer: for (ti, t) in st.terms.iter().enumerate() {
            for (a, b) in &unions {
                if *a >= st.terms.len() || *b >= st.terms.len() || probes >= 4 {
                    continue;
                }
                for (from, to) in [(&st.terms[*a], &st.terms[*b]), (&st.terms[*b], &st.terms[*a])] {
                    let Some(v) = crate::props::c09::replace_first(t, from, to) else { continue };
                    if &v == t || st.terms.contains(&v) {
                        continue;
                    }
                    let tv = parse_tm::<L>(&v, nm);
                    let Some(hv) = lookup_rec_expr(&tv, &eg) else { continue };
                    if !eg.eq(&hv, &st.handles[ti]) {
                        continue;
                    }
                    probes += 1;
                    let ta = parse_tm::<L>(t, nm);
                    // both orders: the never-inserted term as second and as first argument
                    for flip in [false, true] {
                        let (x, y) = if flip { (tv.clone(), ta.clone()) } else { (ta.clone(), tv.clone()) };
                        let proof = eg.explain_equivalence(x.clone(), y.clone());
                        let eq = proof.equ();
                        let pl = render(&eg, &eq.l, &sig)?;
                        let pr = render(&eg, &eq.r, &sig)?;
                        let (ql, qr) = (to_st(&x, &sig)?, to_st(&y, &sig)?);
                        if !same_equation(&pl, &pr, &ql, &qr) {
                            return Err(format!("explanation of {} = {} concludes {} = {}", ql.show(), qr.show(), pl.show(), pr.show()));
                        }
                        check_proof(&eg, &sig, &proof, &asserted, &rules, &mut stats).map_err(|e| format!("explanation of {} = {} (second term never inserted): {}", ql.show(), qr.show(), e))?;
                        explained += 1;
                    }
                    if probes >= 4 {
                        break 'outer;
                    }
                }
            }
        }
        if probes > 0 {
            obs.label("explained-against-never-inserted-term");
        }
        // permuted copies the e-graph reports equal (class symmetries), whether or not the copy was ever inserted
        let mut sym_probes = 0;
        for (ti, t) in st.terms.iter().enumerate() {
            let fv: Vec<Name> = t.fv().into_iter().collect();
            if fv.len() < 2 || fv.len() > 6 || sym_probes >= 6 {
                continue;
            }
            let mut cands: Vec<Vec<Name>> = Vec::new();
            if fv.len() <= 4 {
                cands = crate::egx::perms(&fv);
            } else {
                // transpositions, 3-cycles and products of two disjoint 3-cycles
                let k = fv.len();
                for a in 0..k {
                    for b in a + 1..k {
                        let mut p = fv.clone();
                        p.swap(a, b);
                        cands.push(p);
                        for c2 in 0..k {
                            if c2 != a && c2 != b {
                                let mut p = fv.clone();
                                p[a] = fv[b];
                                p[b] = fv[c2];
                                p[c2] = fv[a];
                                cands.push(p.clone());
                                // second 3-cycle on the remaining points
                                let rest: Vec<usize> = (0..k).filter(|i| *i != a && *i != b && *i != c2).collect();
                                if rest.len() >= 3 {
                                    let mut q = p.clone();
                                    q[rest[0]] = fv[rest[1]];
                                    q[rest[1]] = fv[rest[2]];
                                    q[rest[2]] = fv[rest[0]];
                                    cands.push(q);
                                }
                            }
                        }
                    }
                }
            }
            for p in cands {
                if p == fv || sym_probes >= 6 {
                    continue;
                }
                let m: BTreeMap<Name, Name> = fv.iter().copied().zip(p.iter().copied()).collect();
                let v = crate::hist::unfreshen(&t.rename_free(&m));
                if st.terms.contains(&v) {
                    continue;
                }
                let tv = parse_tm::<L>(&v, nm);
                let Some(hv) = lookup_rec_expr(&tv, &eg) else { continue };
                if !eg.eq(&hv, &st.handles[ti]) {
                    continue;
                }
                sym_probes += 1;
                let ta = parse_tm::<L>(t, nm);
                let proof = eg.explain_equivalence(ta.clone(), tv.clone());
                let eq = proof.equ();
                let pl = render(&eg, &eq.l, &sig)?;
                let pr = render(&eg, &eq.r, &sig)?;
                let (ql, qr) = (to_st(&ta, &sig)?, to_st(&tv, &sig)?);
                if !same_equation(&pl, &pr, &ql, &qr) {
                    return Err(format!("explanation of {} = {} concludes {} = {}", ql.show(), qr.show(), pl.show(), pr.show()));
                }
                check_proof(&eg, &sig, &proof, &asserted, &rules, &mut stats).map_err(|e| format!("explanation of {} = {} (permuted copy, never inserted): {}", ql.show(), qr.show(), e))?;
                explained += 1;
            }
        }
        if sym_probes > 0 {
            obs.label("explained-permuted-copy");
        }
        // classification
        for (h, t) in st.handles.iter().zip(st.terms.iter()) {
            let f = eg.find_applied_id(h);
            if f.slots().len() < t.fv().len() {
                obs.label("redundancy");
            }
            if f.slots().len() == 3 || f.slots().len() == 4 {
                let slots: Vec<Slot> = f.slots().iter().copied().collect();
                let rot: SlotMap = slots.iter().enumerate().map(|(k, s)| (*s, slots[(k + 1) % slots.len()])).collect();
                if eg.eq(&f, &f.apply_slotmap(&rot)) {
                    uses_sym3 = true;
                }
            }
        }
        if uses_sym3 {
            obs.label("non-involutive-symmetry");
        }
        if stats.under_binder {
            obs.label("congruence-under-binder");
        }
        if stats.rule_leaf {
            obs.label("rule-leaf");
        }
        obs.cmp(stats.nodes);
        obs.count("proofs", explained);
        obs.count("proof-nodes", stats.nodes);
        if stats.tolerated_d18 > 0 {
            obs.label("known-D18-leaf-tolerated");
            obs.count("known-D18-leaves-tolerated", stats.tolerated_d18);
        }
        obs.nontrivial = stats.congruence >= 1 && stats.explicit >= 1;
        Ok(())
    }
}

#[cfg(feature = "explanations")]
fn run(c: &Mixed, obs: &mut Obs) -> Result<(), String> {
    crate::with_lang!(c.lang, L => imp::run_l::<L>(c, obs))
}

#[cfg(not(feature = "explanations"))]
fn run(_c: &Mixed, _obs: &mut Obs) -> Result<(), String> {
    Err("C07 needs the explanations feature".into())
}

pub fn property(tier: Tier) -> Property {
    let mut stages: Vec<Box<dyn DynStage>> = Vec::new();
    for (name, lang, q, t) in [
        ("explain-core", crate::langs::LangId::Core, 3000u32, 60_000u32),
        ("explain-lambda", crate::langs::LangId::Lambda, 800, 16_000),
        ("explain-fgh", crate::langs::LangId::Fgh, 600, 12_000),
        ("explain-sdql", crate::langs::LangId::Sdql, 600, 12_000),
        ("explain-arith2", crate::langs::LangId::Arith2, 600, 12_000),
    ] {
        let mut cfg = MixedCfg::for_lang(lang);
        cfg.hist.namings = crate::tm::Naming::diverse();
        cfg.max_ops = tier.pick(7, 10);
        cfg.addsyn_p = 16; // always add_syn_expr: union_justified on handles of plain add_expr loses the syntactic identity of the term by design
        cfg.allow_extraction_subst = false;
        cfg.no_subst_rules = true;
        cfg.rewrite_p = 2;
        stages.push(Box::new(Stage {
            name,
            source: random(move || mixed_strategy(cfg.clone()), tier.pick(q, t)),
            run,
            panic_is_violation: true,
            render: |c: &Mixed| c.render(),
            rule: "histories of add_syn_expr and union_justified with distinct justifications (recipes: permuted copies incl. 3- and 4-cycles, renamed copies = redundancy, contexts = self-reference, binders) and rewrite iterations with rules without substitution right sides; every pair of inserted terms the e-graph reports equal is explained and the proof DAG is re-checked node by node on terms; non-trivial = the proofs contain a congruence step and an explicit leaf; distinct by rendered history",
            case_timeout_s: tier.pick(30, 120),
            exhaustive: false,
        }));
    }
    {
        // classes with up to 6 slots (products of cycles, partially redundant orbits); no ground oracle is involved here
        let mut cfg = MixedCfg::for_lang(crate::langs::LangId::Core);
        cfg.max_ops = tier.pick(6, 8);
        cfg.addsyn_p = 16;
        cfg.allow_extraction_subst = false;
        cfg.no_subst_rules = true;
        cfg.rewrite_p = 1;
        cfg.hist.gen.alphabet = 6;
        cfg.hist.gen.max_fv = 6;
        cfg.hist.gen.max_depth = 2;
        cfg.hist.gen.ops = Some(vec!["v", "f2", "g3", "c0", "p", "w", "lam"]);
        cfg.hist.weights = [1, 1, 4, 3, 2, 1, 2, 1, 6, 1, 1, 2, 2];
        stages.push(Box::new(Stage {
            name: "explain-core-wide",
            source: random(move || mixed_strategy(cfg.clone()), tier.pick(1500, 30_000)),
            run,
            panic_is_violation: true,
            render: |c: &Mixed| c.render(),
            rule: "as explain-core, but over a 6-name alphabet with terms of up to 6 free slots (p over two multi-slot leaves), mostly permuted and renamed copies: symmetries that are products of cycles, orbits that become redundant only in part",
            case_timeout_s: tier.pick(30, 120),
            exhaustive: false,
        }));
    }
    Property {
        id: "C07", scale: tier.pick(5, 2),
        stages,
        assumptions: vec![
            "premises are taken up to a slot renaming that is injective on each side of the premise (the notion of the property text)".into(),
            "terms of proof nodes are read with get_syn_expr after renaming the invocation's arguments to brand-new names; reading under the original names is a separate sub-check".into(),
        ],
    }
}
