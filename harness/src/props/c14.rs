//! C14 — analysis data is the fixpoint of make/merge over each class.
use crate::analyses::*;
use crate::egx::*;
use crate::engine::*;
use crate::fprules::*;
use crate::langs::*;
use crate::mixed::*;
use crate::oracle::bf::*;
use crate::oracle::fp::*;
use crate::tm::*;
use proptest::prelude::*;
use serde::{Deserialize, Serialize};
use slotted_egraphs::*;
use std::collections::BTreeMap;

// ---------------- min-size / min-depth on mixed histories of every language ----------------

fn check_min<L: Language, N: Analysis<L, Data = u64>>(
    eg: &EGraph<L, N>,
    handles: &[AppliedId],
    what: &str,
    expect_best_cost: bool,
    child_propagated: &mut bool,
    prev: &mut BTreeMap<Id, u64>,
) -> Result<u64, String> {
    let mut cmp = 0;
    // data read through old (possibly dead, possibly repeatedly merged) handles first, before any other query
    // canonicalises them: they must be the data of the classes the handles now denote
    let through_handles: Vec<u64> = handles.iter().map(|h| *eg.analysis_data(h.id)).collect();
    for (h, d) in handles.iter().zip(through_handles.iter()) {
        let leader = eg.find_applied_id(h).id;
        cmp += 1;
        if eg.analysis_data(leader) != d {
            return Err(format!("[{what}] analysis_data({:?}) = {} read through an old handle, but the class it was merged into ({:?}) carries {}", h.id, d, leader, eg.analysis_data(leader)));
        }
    }
    for c in eg.ids() {
        let d = *eg.analysis_data(c);
        // fixpoint equation: datum = min over e-nodes of make(node)
        let mut m: Option<u64> = None;
        for n in eg.enodes(c) {
            let v = N::make(eg, &n);
            m = Some(m.map(|x| x.min(v)).unwrap_or(v));
        }
        cmp += 1;
        if m != Some(d) {
            return Err(format!("[{what}] class {:?}: datum {} but the join of make over its e-nodes is {:?}", c, d, m));
        }
        if let Some(p) = prev.get(&c) {
            if d > *p {
                return Err(format!("[{what}] class {:?}: datum went up from {} to {} (merge is min)", c, p, d));
            }
        }
    }
    // equal handles share a datum
    for (i, a) in handles.iter().enumerate() {
        for b in handles.iter().skip(i + 1) {
            if eg.eq(a, b) {
                cmp += 1;
                if eg.analysis_data(a.id) != eg.analysis_data(b.id) {
                    return Err(format!("[{what}] {:?} and {:?} are equal but carry different data", a, b));
                }
            }
        }
    }
    if expect_best_cost {
        // least fixpoint: equals the independently computed minimum and the extractor's best cost
        let reference = reference_costs(eg, &AstSize);
        let ex = Extractor::<L, AstSize>::new(eg, AstSize);
        for c in eg.ids() {
            let d = *eg.analysis_data(c);
            cmp += 2;
            if reference.get(&c) != Some(&d) {
                return Err(format!("[{what}] class {:?}: datum {} but the smallest term has size {:?}", c, d, reference.get(&c)));
            }
            let b = ex.get_best_cost::<N>(&eg.mk_identity_applied_id(c));
            if b != d {
                return Err(format!("[{what}] class {:?}: datum {} but Extractor::get_best_cost is {}", c, d, b));
            }
        }
    }
    // classification: a datum changed although the class itself was not an operand (propagation from a child)
    let mut now = BTreeMap::new();
    for c in eg.ids() {
        let d = *eg.analysis_data(c);
        if let Some(p) = prev.get(&c) {
            if d < *p {
                *child_propagated = true;
            }
        }
        now.insert(c, d);
    }
    *prev = now;
    Ok(cmp)
}

fn run_min(c: &Mixed, obs: &mut Obs) -> Result<(), String> {
    crate::with_lang!(c.lang, L => run_min_l::<L>(c, obs))
}

fn run_min_l<L: Language + 'static>(c: &Mixed, obs: &mut Obs) -> Result<(), String> {
    let mut cmp = 0;
    let mut prop1 = false;
    {
        let mut eg: EGraph<L, MinSize> = new_egraph(MinSize, c.extraction_subst);
        let mut prev = BTreeMap::new();
        let st = drive::<L, MinSize>(c, &mut eg, &mut |eg, st, _| {
            cmp += check_min(eg, &st.handles, "min-size", true, &mut prop1, &mut prev)?;
            Ok(())
        })?;
        if st.rewrites_changed > 0 {
            obs.label("rewrite-changed");
        }
        if eg.ids().iter().any(|i| eg.enodes(*i).iter().any(|n| n.applied_id_occurrences().iter().any(|x| x.id == *i))) {
            obs.label("cyclic");
            obs.nontrivial = true;
        }
    }
    {
        let mut eg: EGraph<L, MinDepth> = new_egraph(MinDepth, c.extraction_subst);
        let mut prev = BTreeMap::new();
        let mut p2 = false;
        drive::<L, MinDepth>(c, &mut eg, &mut |eg, st, _| {
            cmp += check_min(eg, &st.handles, "min-depth", false, &mut p2, &mut prev)?;
            Ok(())
        })?;
    }
    obs.cmp(cmp);
    if prop1 {
        obs.label("datum-lowered-after-creation");
        obs.nontrivial = true;
    }
    Ok(())
}

// ---------------- constant folding over F_p with a modify hook ----------------

#[derive(Default, Clone, Copy)]
pub struct ConstFold;

fn d(eg: &EGraph<Fp, ConstFold>, a: &AppliedId) -> Option<u32> {
    *eg.analysis_data(a.id)
}

impl Analysis<Fp> for ConstFold {
    type Data = Option<u32>;
    fn make(eg: &EGraph<Fp, Self>, n: &Fp) -> Option<u32> {
        match n {
            Fp::Num(k) => Some(k % P),
            Fp::Var(_) => None,
            Fp::Add(a, b) => Some((d(eg, a)? + d(eg, b)?) % P),
            Fp::Mul(a, b) => Some((d(eg, a)? * d(eg, b)?) % P),
            Fp::Neg(a) => Some((P - d(eg, a)?) % P),
            // sum over the index set {0,1} of a constant c is 2c
            Fp::Sum(Bind { elem, .. }) => d(eg, elem).map(|c| (SUM_RANGE * c) % P),
            // let x = e in b, with b constant
            Fp::Let(Bind { elem, .. }, _) => d(eg, elem),
        }
    }
    fn merge(l: Option<u32>, r: Option<u32>) -> Option<u32> {
        match (l, r) {
            (Some(a), Some(b)) => {
                assert_eq!(a, b, "ConstFold::merge: the two sides disagree");
                Some(a)
            }
            (Some(a), None) | (None, Some(a)) => Some(a),
            (None, None) => None,
        }
    }
    fn modify(eg: &mut EGraph<Fp, Self>, id: Id) {
        if let Some(c) = *eg.analysis_data(id) {
            let n = eg.add(Fp::Num(c));
            let i = eg.mk_identity_applied_id(id);
            eg.union(&n, &i);
        }
    }
}

#[derive(Clone, Debug, PartialEq, Eq, Hash, Serialize, Deserialize)]
pub enum COp {
    Add(Tm),
    /// union of the i-th term with a model-equal variant of it (added first)
    UnionVariant(usize, Tm),
    Rewrite(Vec<usize>),
}

#[derive(Clone, Debug, PartialEq, Eq, Hash, Serialize, Deserialize)]
pub struct ConstCase {
    pub ops: Vec<COp>,
}

fn variant(t: &Tm, src: &mut Src) -> Tm {
    let k = |x: Tm| Arg::K(vec![], x);
    let num = |n: u32| Tm { op: String::new(), args: vec![Arg::P(n.to_string())] };
    let v = match src.pick(8) {
        0 => Tm::node("add", vec![k(t.clone()), k(num(0))]),
        1 => Tm::node("mul", vec![k(num(1)), k(t.clone())]),
        2 => Tm::node("neg", vec![k(Tm::node("neg", vec![k(t.clone())]))]),
        3 => {
            if t.fv().is_empty() {
                num(eval(t, &BTreeMap::new(), P))
            } else {
                Tm::node("add", vec![k(num(0)), k(t.clone())])
            }
        }
        4 => Tm::node("let", vec![Arg::K(vec![90], t.clone()), k(num(src.pick(5) as u32))]),
        5 => Tm::node("add", vec![k(t.clone()), k(Tm::node("sum", vec![Arg::K(vec![91], num(0))]))]),
        6 => {
            if t.op == "add" || t.op == "mul" {
                let ks = t.kids();
                Tm::node(&t.op, vec![k(ks[1].1.clone()), k(ks[0].1.clone())])
            } else {
                Tm::node("mul", vec![k(t.clone()), k(num(1))])
            }
        }
        _ => Tm::node("add", vec![k(Tm::node("mul", vec![k(num(2)), k(t.clone())])), k(Tm::node("mul", vec![k(num(4)), k(t.clone())]))]), // 2t + 4t = 6t = t (mod 5)
    };
    if equal_as_functions(t, &v, P) {
        v
    } else {
        t.clone()
    }
}

fn decode_const(chunks: &[Vec<u16>]) -> ConstCase {
    let sig = LangId::Fp.sig();
    let cfg = GenCfg { alphabet: 2, max_depth: 3, payload_u32_max: 4, avoid_same_node_shadowing: false, ..GenCfg::default() };
    let mut ops = Vec::new();
    let mut terms: Vec<Tm> = Vec::new();
    for ch in chunks {
        let mut src = Src::new(ch);
        match src.pick(6) {
            0 | 1 => {
                // bias towards closed terms so that constants appear
                let mut c2 = cfg.clone();
                if src.coin(1, 2) {
                    c2.ops = Some(vec!["", "add", "mul", "neg", "sum", "let"]);
                }
                let t = cap_fv(&gen_tm(&sig, &c2, &mut src, 0), 2);
                terms.push(t.clone());
                ops.push(COp::Add(t));
            }
            2 | 3 | 4 => {
                if terms.is_empty() {
                    continue;
                }
                let i = src.pick(terms.len());
                let v = variant(&terms[i], &mut src);
                terms.push(v.clone());
                ops.push(COp::UnionVariant(i, v));
            }
            _ => {
                let n = 1 + src.pick(3);
                let rs = (0..n).map(|_| src.pick(32)).collect();
                ops.push(COp::Rewrite(rs));
            }
        }
    }
    ConstCase { ops }
}

fn run_const(c: &ConstCase, obs: &mut Obs) -> Result<(), String> {
    let nm = Naming::Alpha;
    let pool = fp_rules();
    let mut eg: EGraph<Fp, ConstFold> = EGraph::new(ConstFold);
    let mut handles: Vec<AppliedId> = Vec::new();
    let mut terms: Vec<Tm> = Vec::new();
    let mut cmp = 0u64;
    let mut modify_fired = false;
    let mut const_classes = 0;
    for (step, op) in c.ops.iter().enumerate() {
        match op {
            COp::Add(t) => {
                handles.push(eg.add_expr(parse_tm::<Fp>(t, &nm)));
                terms.push(t.clone());
            }
            COp::UnionVariant(i, v) => {
                let b = eg.add_expr(parse_tm::<Fp>(v, &nm));
                let a = handles[*i].clone();
                handles.push(b.clone());
                terms.push(v.clone());
                eg.union(&a, &b);
            }
            COp::Rewrite(rs) => {
                if eg.total_number_of_nodes() < 300 {
                    let rules: Vec<Rewrite<Fp, ConstFold>> = rs.iter().map(|i| build_fp_rule::<ConstFold>(&pool[*i % pool.len()])).collect();
                    apply_rewrites(&mut eg, &rules);
                }
            }
        }
        // after every public operation, at every live class:
        // independent least fixpoint of the constant analysis over eg.enodes()
        let ids = eg.ids();
        let mut lfp: BTreeMap<Id, Option<u32>> = ids.iter().map(|i| (*i, None)).collect();
        loop {
            let mut changed = false;
            for i in &ids {
                if lfp[i].is_some() {
                    continue;
                }
                for n in eg.enodes(*i) {
                    let g = |a: &AppliedId| lfp.get(&a.id).copied().flatten();
                    let v = match &n {
                        Fp::Num(k) => Some(k % P),
                        Fp::Var(_) => None,
                        Fp::Add(a, b) => g(a).and_then(|x| g(b).map(|y| (x + y) % P)),
                        Fp::Mul(a, b) => g(a).and_then(|x| g(b).map(|y| (x * y) % P)),
                        Fp::Neg(a) => g(a).map(|x| (P - x) % P),
                        Fp::Sum(Bind { elem, .. }) => g(elem).map(|c| (SUM_RANGE * c) % P),
                        Fp::Let(Bind { elem, .. }, _) => g(elem),
                    };
                    if v.is_some() {
                        lfp.insert(*i, v);
                        changed = true;
                        break;
                    }
                }
            }
            if !changed {
                break;
            }
        }
        for i in &ids {
            let dat = *eg.analysis_data(*i);
            cmp += 2;
            // fixpoint equation (join of make over e-nodes)
            let mut j: Option<u32> = None;
            for n in eg.enodes(*i) {
                if let Some(v) = ConstFold::make(&eg, &n) {
                    if let Some(o) = j {
                        if o != v {
                            return Err(format!("step {step}: class {:?} has e-nodes with different constant values {} and {}", i, o, v));
                        }
                    }
                    j = Some(v);
                }
            }
            if j != dat {
                return Err(format!("step {step}: class {:?}: datum {:?} but the join of make over its e-nodes is {:?}", i, dat, j));
            }
            if lfp[i] != dat {
                return Err(format!("step {step}: class {:?}: datum {:?} but the independently computed least fixpoint is {:?}", i, dat, lfp[i]));
            }
            if dat.is_some() {
                const_classes += 1;
                // modify must have added the constant
                let cnode = Fp::Num(dat.unwrap());
                match eg.lookup(&cnode) {
                    Some(a) if a.id == *i => modify_fired = true,
                    other => return Err(format!("step {step}: class {:?} has the constant datum {:?} but the e-node {:?} looks up to {:?} (modify did not add it)", i, dat, cnode, other)),
                }
            }
        }
        // model value: the datum of every inserted term's class is the term's value if it has one
        for (h, t) in handles.iter().zip(terms.iter()) {
            if let Some(v) = *eg.analysis_data(h.id) {
                let mut env = BTreeMap::new();
                for (k, n) in t.fv().into_iter().enumerate() {
                    env.insert(n, ((k as u32 + 1) * 2 + step as u32) % P);
                }
                cmp += 1;
                if eval(t, &env, P) != v {
                    return Err(format!("step {step}: the class of {} has the constant datum {} but the term evaluates to {} under {:?}", t.txt(), v, eval(t, &env, P), env));
                }
            } else if !t.subterms().iter().any(|s| s.op == "var") {
                // a term without variable leaves always has a value under this analysis: the least fixpoint must find it
                return Err(format!("step {step}: the variable-free term {} has no constant datum", t.txt()));
            }
        }
        for (i, a) in handles.iter().enumerate() {
            for b in handles.iter().skip(i + 1) {
                if eg.eq(a, b) && eg.analysis_data(a.id) != eg.analysis_data(b.id) {
                    return Err(format!("step {step}: equal handles carry different data"));
                }
            }
        }
    }
    obs.cmp(cmp);
    if modify_fired {
        obs.label("modify-fired");
    }
    if const_classes > 0 {
        obs.label("constant-class");
    }
    obs.nontrivial = modify_fired && c.ops.iter().any(|o| matches!(o, COp::UnionVariant(..)));
    Ok(())
}

fn render_const(c: &ConstCase) -> String {
    let pool = fp_rules();
    let mut out = String::new();
    let mut k = 0;
    for o in &c.ops {
        match o {
            COp::Add(t) => {
                out.push_str(&format!("t{}=add {}; ", k, t.txt()));
                k += 1;
            }
            COp::UnionVariant(i, v) => {
                out.push_str(&format!("t{}=add {}; union t{} t{}; ", k, v.txt(), i, k));
                k += 1;
            }
            COp::Rewrite(rs) => out.push_str(&format!("rewrite[{}]; ", rs.iter().map(|i| pool[*i % pool.len()].name).collect::<Vec<_>>().join(","))),
        }
    }
    out
}

pub fn property(tier: Tier) -> Property {
    let mut stages: Vec<Box<dyn DynStage>> = Vec::new();
    for (name, lang, q, t) in [("min-core", LangId::Core, 3000u32, 60_000u32), ("min-lambda", LangId::Lambda, 1000, 20_000), ("min-arith", LangId::Arith, 800, 16_000), ("min-fp", LangId::Fp, 800, 16_000)] {
        let mut cfg = MixedCfg::for_lang(lang);
        cfg.hist.namings = crate::tm::Naming::diverse();
        cfg.max_ops = tier.pick(8, 12);
        stages.push(Box::new(Stage {
            name,
            source: random(move || mixed_strategy(cfg.clone()), tier.pick(q, t)),
            run: run_min,
            panic_is_violation: false,
            render: |c: &Mixed| c.render(),
            rule: "mixed histories (insertions, unions, rewrite iterations) run with the min-size and the min-depth analysis; after every operation at every live class: datum = join (min) of make over eg.enodes, equal handles share a datum, data never go up, min-size = Bellman-Ford minimum = Extractor best cost; non-trivial = a datum was lowered after the class was created (propagation through merges) or the e-graph is cyclic; distinct by rendered history",
            case_timeout_s: tier.pick(30, 120),
            exhaustive: false,
        }));
    }
    stages.push(Box::new(Stage {
        name: "const-fp",
        source: random(|| proptest::collection::vec(proptest::collection::vec(any::<u16>(), 0..40), 1..10).prop_map(|ch| decode_const(&ch)).boxed(), tier.pick(3000, 60_000)),
        run: run_const,
        panic_is_violation: true,
        render: render_const,
        rule: "histories over the F_5 language with a constant-folding analysis whose modify hook adds the constant and unites: insertions (half of them closed terms), unions with model-equal variants (checked exhaustively over all environments before use), rewrite iterations with model-valid rules; after every operation at every class: datum = join of make over e-nodes = independently computed least fixpoint, constant classes contain their numeral, data agree with the model value of the inserted terms, variable-free terms always have a datum; non-trivial = modify fired and a union happened; distinct by rendered history",
        case_timeout_s: tier.pick(30, 120),
        exhaustive: false,
    }));
    Property { id: "C14", scale: tier.pick(5, 2), stages, assumptions: vec!["only model-valid unions and rules are generated for the constant analysis (merge asserts agreement)".into()] }
}
