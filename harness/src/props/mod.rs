pub mod closure;
pub mod c01;
pub mod c02;

use crate::engine::{Property, Tier};

pub const ALL: &[&str] = &[
    "C01", "C02",
];

pub fn property(id: &str, tier: Tier) -> Option<Property> {
    Some(match id {
        "C01" => c01::property(tier),
        "C02" => c02::property(tier),
        _ => return None,
    })
}
