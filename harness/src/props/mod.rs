pub mod closure;
pub mod c01;
pub mod c02;
pub mod c03;
pub mod c04;
pub mod c05;
pub mod c06;
pub mod c07;
pub mod c08;
pub mod c09;
pub mod c10;
pub mod c11;
pub mod c12;
pub mod c13;
pub mod c14;
pub mod c15;
pub mod c16;
pub mod c17;
pub mod c18;
pub mod c19;
pub mod c20;

use crate::engine::{Property, Tier};

pub const ALL: &[&str] = &[
    "C01", "C02", "C03", "C04", "C05", "C06", "C07", "C08", "C09", "C10", "C11", "C12", "C13", "C14", "C15", "C16", "C17", "C18", "C19", "C20",
];

pub fn property(id: &str, tier: Tier) -> Option<Property> {
    Some(match id {
        "C01" => c01::property(tier),
        "C02" => c02::property(tier),
        "C03" => c03::property(tier),
        "C04" => c04::property(tier),
        "C05" => c05::property(tier),
        "C06" => c06::property(tier),
        "C07" => c07::property(tier),
        "C08" => c08::property(tier),
        "C09" => c09::property(tier),
        "C10" => c10::property(tier),
        "C11" => c11::property(tier),
        "C12" => c12::property(tier),
        "C13" => c13::property(tier),
        "C14" => c14::property(tier),
        "C15" => c15::property(tier),
        "C16" => c16::property(tier),
        "C17" => c17::property(tier),
        "C18" => c18::property(tier),
        "C19" => c19::property(tier),
        "C20" => c20::property(tier),
        _ => return None,
    })
}
