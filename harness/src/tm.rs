//! Language-independent model of terms: named model terms `Tm`, language signatures, printers,
//! free names, renaming, and the choice-sequence decoder used by both proptest and libFuzzer.

use serde::{Deserialize, Serialize};
use std::collections::{BTreeMap, BTreeSet};

pub type Name = u8;

#[derive(Clone, Debug, PartialEq, Eq, Hash, PartialOrd, Ord, Serialize, Deserialize)]
pub enum Arg {
    /// a slot field
    S(Name),
    /// a child, under the given binders (Bind<Bind<..>> = two names)
    K(Vec<Name>, Tm),
    /// a payload (printed verbatim)
    P(String),
}

#[derive(Clone, Debug, PartialEq, Eq, Hash, PartialOrd, Ord, Serialize, Deserialize)]
pub struct Tm {
    /// operator name; empty for payload-only variants such as `Number(u32)`
    pub op: String,
    pub args: Vec<Arg>,
}

#[derive(Clone, Copy, Debug, PartialEq, Eq)]
pub enum Field {
    Slot,
    Kid(u8),
    PayU32,
    PaySym,
    /// another payload type; the list gives admissible spellings (first = simplest)
    PayOther(&'static [&'static str]),
}

#[derive(Clone, Debug)]
pub struct OpSig {
    pub name: &'static str,
    pub fields: Vec<Field>,
}

impl OpSig {
    pub fn is_leaf(&self) -> bool {
        !self.fields.iter().any(|f| matches!(f, Field::Kid(_)))
    }
    pub fn n_kids(&self) -> usize {
        self.fields.iter().filter(|f| matches!(f, Field::Kid(_))).count()
    }
}

#[derive(Clone, Debug)]
pub struct LangSig {
    pub name: &'static str,
    pub ops: Vec<OpSig>,
}

impl LangSig {
    pub fn op(&self, name: &str) -> Option<&OpSig> {
        self.ops.iter().find(|o| o.name == name)
    }
}

pub fn op(name: &'static str, fields: &[Field]) -> OpSig {
    OpSig { name, fields: fields.to_vec() }
}

/// How abstract names are spelled as slot names.
#[derive(Clone, Debug, PartialEq, Eq, Hash, Serialize, Deserialize)]
pub enum Naming {
    /// $a $b $c ...
    Alpha,
    /// $1 $2 ... (numeric; internal order = numeric order)
    Numeric,
    /// numeric, order reversed: name i -> $(40-i)
    NumericRev,
    /// $f0 $f1 ... : collides with the spelling of internally generated fresh slots
    FreshLike,
    /// $z $y $x ... (textual, interned in reverse alphabetical spelling)
    AlphaRev,
    /// explicit table
    Table(Vec<String>),
}

impl Naming {
    /// $0 $1 $2 ...: the spelling the library itself uses inside canonical shapes
    pub fn numeric0() -> Naming {
        Naming::Table((0..256).map(|i| i.to_string()).collect())
    }

    /// the spellings a history is generated with when the check does not depend on the names: mostly $a.., sometimes
    /// numeric from 1, numeric from 0 (like shape-internal slots) or $f<n> (like internal fresh slots)
    pub fn diverse() -> Vec<Naming> {
        vec![Naming::Alpha, Naming::Alpha, Naming::Alpha, Naming::Numeric, Naming::numeric0(), Naming::FreshLike]
    }

    pub fn slot(&self, n: Name) -> String {
        match self {
            Naming::Alpha => {
                if n < 26 {
                    format!("${}", (b'a' + n) as char)
                } else {
                    format!("$n{}", n)
                }
            }
            Naming::Numeric => format!("${}", n as u32 + 1),
            Naming::NumericRev => format!("${}", 300 - n as u32),
            Naming::FreshLike => format!("$f{}", n),
            Naming::AlphaRev => {
                if n < 26 {
                    format!("${}", (b'z' - n) as char)
                } else {
                    format!("$m{}", n)
                }
            }
            Naming::Table(t) => format!("${}", t[n as usize]),
        }
    }
}

impl Tm {
    pub fn leaf(op: &str, slots: &[Name]) -> Tm {
        Tm { op: op.to_string(), args: slots.iter().map(|s| Arg::S(*s)).collect() }
    }
    pub fn node(op: &str, args: Vec<Arg>) -> Tm {
        Tm { op: op.to_string(), args }
    }

    pub fn render(&self, nm: &Naming) -> String {
        let mut s = String::new();
        self.render_into(nm, &mut s);
        s
    }

    fn render_into(&self, nm: &Naming, out: &mut String) {
        // mirrors the library's Display: a node whose syntax has exactly one element prints bare
        let mut parts: Vec<String> = Vec::new();
        if !self.op.is_empty() {
            parts.push(self.op.clone());
        }
        for a in &self.args {
            match a {
                Arg::S(n) => parts.push(nm.slot(*n)),
                Arg::P(p) => parts.push(p.clone()),
                Arg::K(bs, t) => {
                    for b in bs {
                        parts.push(nm.slot(*b));
                    }
                    parts.push(t.render(nm));
                }
            }
        }
        if parts.len() == 1 {
            out.push_str(&parts[0]);
        } else {
            out.push('(');
            out.push_str(&parts.join(" "));
            out.push(')');
        }
    }

    pub fn txt(&self) -> String {
        self.render(&Naming::Alpha)
    }

    pub fn fv(&self) -> BTreeSet<Name> {
        let mut out = BTreeSet::new();
        self.fv_into(&mut Vec::new(), &mut out);
        out
    }

    fn fv_into(&self, bound: &mut Vec<Name>, out: &mut BTreeSet<Name>) {
        for a in &self.args {
            match a {
                Arg::S(n) => {
                    if !bound.contains(n) {
                        out.insert(*n);
                    }
                }
                Arg::P(_) => {}
                Arg::K(bs, t) => {
                    let l = bound.len();
                    bound.extend(bs.iter().copied());
                    t.fv_into(bound, out);
                    bound.truncate(l);
                }
            }
        }
    }

    /// free names in order of first occurrence (left to right)
    pub fn fv_order(&self) -> Vec<Name> {
        let mut out = Vec::new();
        self.fv_order_into(&mut Vec::new(), &mut out);
        out
    }

    fn fv_order_into(&self, bound: &mut Vec<Name>, out: &mut Vec<Name>) {
        for a in &self.args {
            match a {
                Arg::S(n) => {
                    if !bound.contains(n) && !out.contains(n) {
                        out.push(*n);
                    }
                }
                Arg::P(_) => {}
                Arg::K(bs, t) => {
                    let l = bound.len();
                    bound.extend(bs.iter().copied());
                    t.fv_order_into(bound, out);
                    bound.truncate(l);
                }
            }
        }
    }

    pub fn all_names(&self) -> BTreeSet<Name> {
        let mut out = BTreeSet::new();
        self.all_names_into(&mut out);
        out
    }
    fn all_names_into(&self, out: &mut BTreeSet<Name>) {
        for a in &self.args {
            match a {
                Arg::S(n) => {
                    out.insert(*n);
                }
                Arg::P(_) => {}
                Arg::K(bs, t) => {
                    out.extend(bs.iter().copied());
                    t.all_names_into(out);
                }
            }
        }
    }

    pub fn size(&self) -> usize {
        1 + self
            .args
            .iter()
            .map(|a| match a {
                Arg::K(_, t) => t.size(),
                _ => 0,
            })
            .sum::<usize>()
    }

    pub fn depth(&self) -> usize {
        1 + self
            .args
            .iter()
            .map(|a| match a {
                Arg::K(_, t) => t.depth(),
                _ => 0,
            })
            .max()
            .unwrap_or(0)
    }

    pub fn kids(&self) -> Vec<(&Vec<Name>, &Tm)> {
        self.args
            .iter()
            .filter_map(|a| match a {
                Arg::K(b, t) => Some((b, t)),
                _ => None,
            })
            .collect()
    }

    /// all subterms (including self), binder bodies included (with the bound names free in them)
    pub fn subterms(&self) -> Vec<&Tm> {
        let mut out = Vec::new();
        self.subterms_into(&mut out);
        out
    }
    fn subterms_into<'a>(&'a self, out: &mut Vec<&'a Tm>) {
        out.push(self);
        for a in &self.args {
            if let Arg::K(_, t) = a {
                t.subterms_into(out);
            }
        }
    }

    /// Rename all names (free and bound alike) through a total injective map on the alphabet.
    /// Injective total renaming of the whole alphabet can never capture.
    pub fn rename_all(&self, f: &dyn Fn(Name) -> Name) -> Tm {
        Tm {
            op: self.op.clone(),
            args: self
                .args
                .iter()
                .map(|a| match a {
                    Arg::S(n) => Arg::S(f(*n)),
                    Arg::P(p) => Arg::P(p.clone()),
                    Arg::K(bs, t) => Arg::K(bs.iter().map(|b| f(*b)).collect(), t.rename_all(f)),
                })
                .collect(),
        }
    }

    /// Make every binder bind a distinct name >= `start`, disjoint from all free names. Returns the next unused name.
    pub fn freshen_bound(&self, next: &mut Name) -> Tm {
        self.freshen_rec(&mut Vec::new(), next)
    }
    fn freshen_rec(&self, env: &mut Vec<(Name, Name)>, next: &mut Name) -> Tm {
        let look = |env: &Vec<(Name, Name)>, n: Name| -> Name {
            for (a, b) in env.iter().rev() {
                if *a == n {
                    return *b;
                }
            }
            n
        };
        Tm {
            op: self.op.clone(),
            args: self
                .args
                .iter()
                .map(|a| match a {
                    Arg::S(n) => Arg::S(look(env, *n)),
                    Arg::P(p) => Arg::P(p.clone()),
                    Arg::K(bs, t) => {
                        let l = env.len();
                        let mut nbs = Vec::new();
                        for b in bs {
                            let nb = *next;
                            *next += 1;
                            env.push((*b, nb));
                            nbs.push(nb);
                        }
                        let t2 = t.freshen_rec(env, next);
                        env.truncate(l);
                        Arg::K(nbs, t2)
                    }
                })
                .collect(),
        }
    }

    /// Capture-avoiding renaming of FREE names by a (partial) map; bound names are first moved
    /// out of the way (to names >= 100) when they could clash.
    pub fn rename_free(&self, m: &BTreeMap<Name, Name>) -> Tm {
        let mut next: Name = 100;
        let t = self.freshen_bound(&mut next);
        t.rename_all(&|n| if n >= 100 { n } else { *m.get(&n).unwrap_or(&n) })
    }

    /// alpha-equivalence (same free names, bound names up to renaming)
    pub fn alpha_eq(&self, o: &Tm) -> bool {
        fn go(a: &Tm, b: &Tm, ea: &mut Vec<Name>, eb: &mut Vec<Name>) -> bool {
            if a.op != b.op || a.args.len() != b.args.len() {
                return false;
            }
            for (x, y) in a.args.iter().zip(b.args.iter()) {
                match (x, y) {
                    (Arg::S(n), Arg::S(k)) => {
                        let pa = ea.iter().rposition(|z| z == n);
                        let pb = eb.iter().rposition(|z| z == k);
                        match (pa, pb) {
                            (None, None) => {
                                if n != k {
                                    return false;
                                }
                            }
                            (Some(i), Some(j)) => {
                                if i != j {
                                    return false;
                                }
                            }
                            _ => return false,
                        }
                    }
                    (Arg::P(p), Arg::P(q)) => {
                        if p != q {
                            return false;
                        }
                    }
                    (Arg::K(bs, t), Arg::K(cs, u)) => {
                        if bs.len() != cs.len() {
                            return false;
                        }
                        let (la, lb) = (ea.len(), eb.len());
                        ea.extend(bs.iter().copied());
                        eb.extend(cs.iter().copied());
                        let r = go(t, u, ea, eb);
                        ea.truncate(la);
                        eb.truncate(lb);
                        if !r {
                            return false;
                        }
                    }
                    _ => return false,
                }
            }
            true
        }
        go(self, o, &mut Vec::new(), &mut Vec::new())
    }

    /// true if some node binds a name that also occurs free in the same node (same-node shadowing)
    pub fn has_same_node_shadowing(&self) -> bool {
        for t in self.subterms() {
            let mut bound_here: BTreeSet<Name> = BTreeSet::new();
            for a in &t.args {
                if let Arg::K(bs, _) = a {
                    bound_here.extend(bs.iter().copied());
                }
            }
            if bound_here.is_empty() {
                continue;
            }
            // free names of this node
            let fv = t.fv();
            if bound_here.iter().any(|b| fv.contains(b)) {
                return true;
            }
            // a binder list binding the same name twice
            for a in &t.args {
                if let Arg::K(bs, _) = a {
                    let s: BTreeSet<_> = bs.iter().collect();
                    if s.len() != bs.len() {
                        return true;
                    }
                }
            }
        }
        false
    }

    /// true if some binder rebinds a name that is bound by an enclosing binder or occurs free anywhere in the whole term
    pub fn has_any_shadowing(&self) -> bool {
        fn go(t: &Tm, bound: &mut Vec<Name>, free_all: &BTreeSet<Name>) -> bool {
            for a in &t.args {
                if let Arg::K(bs, k) = a {
                    for b in bs {
                        if bound.contains(b) || free_all.contains(b) {
                            return true;
                        }
                    }
                    let s: BTreeSet<_> = bs.iter().collect();
                    if s.len() != bs.len() {
                        return true;
                    }
                    let l = bound.len();
                    bound.extend(bs.iter().copied());
                    let r = go(k, bound, free_all);
                    bound.truncate(l);
                    if r {
                        return true;
                    }
                }
            }
            false
        }
        go(self, &mut Vec::new(), &self.fv())
    }
}

// ------------------------------------------------------------------------------------------------
// choice-sequence source
// ------------------------------------------------------------------------------------------------

/// A finite sequence of 16-bit choices.  When exhausted it yields 0, the "simplest" choice.
pub struct Src<'a> {
    data: &'a [u16],
    pos: usize,
}

impl<'a> Src<'a> {
    pub fn new(data: &'a [u16]) -> Self {
        Src { data, pos: 0 }
    }
    pub fn raw(&mut self) -> u16 {
        let v = self.data.get(self.pos).copied().unwrap_or(0);
        self.pos += 1;
        v
    }
    /// monotone map to 0..n
    pub fn pick(&mut self, n: usize) -> usize {
        if n <= 1 {
            // still consume, to keep alignment stable
            self.raw();
            return 0;
        }
        ((self.raw() as usize) * n) >> 16
    }
    pub fn coin(&mut self, num: usize, den: usize) -> bool {
        self.pick(den) >= den - num
    }
    pub fn exhausted(&self) -> bool {
        self.pos >= self.data.len()
    }
}

#[derive(Clone, Debug)]
pub struct GenCfg {
    pub alphabet: u8,
    pub max_depth: usize,
    /// allow binders to reuse names of the alphabet (shadowing across nodes)
    pub bound_from_alphabet: bool,
    /// forbid a binder name that occurs free in the same node (D5 routing)
    pub avoid_same_node_shadowing: bool,
    /// max number of free names per (sub)term incl. bodies; terms exceeding it are repaired by renaming
    pub max_fv: usize,
    /// restrict to these ops (None = all)
    pub ops: Option<Vec<&'static str>>,
    pub payload_u32_max: u32,
    pub symbols: Vec<&'static str>,
}

impl Default for GenCfg {
    fn default() -> Self {
        GenCfg {
            alphabet: 4,
            max_depth: 3,
            bound_from_alphabet: true,
            avoid_same_node_shadowing: false,
            max_fv: 3,
            ops: None,
            payload_u32_max: 3,
            symbols: vec!["s", "t", "map"],
        }
    }
}

/// Decode a term from choices.  Leaves come first in the op order used for picking, so a
/// zero-choice gives the simplest term.
pub fn gen_tm(sig: &LangSig, cfg: &GenCfg, src: &mut Src, depth: usize) -> Tm {
    let ops: Vec<&OpSig> = sig
        .ops
        .iter()
        .filter(|o| cfg.ops.as_ref().map(|v| v.contains(&o.name)).unwrap_or(true))
        .collect();
    let mut leaves: Vec<&OpSig> = ops.iter().copied().filter(|o| o.is_leaf()).collect();
    let inner: Vec<&OpSig> = ops.iter().copied().filter(|o| !o.is_leaf()).collect();
    if leaves.is_empty() {
        leaves = ops.clone();
    }
    let o: &OpSig = if depth >= cfg.max_depth || inner.is_empty() {
        leaves[src.pick(leaves.len())]
    } else {
        // bias: 40% leaf
        if src.pick(5) < 2 {
            leaves[src.pick(leaves.len())]
        } else {
            inner[src.pick(inner.len())]
        }
    };
    let mut args = Vec::new();
    for f in &o.fields {
        match f {
            Field::Slot => args.push(Arg::S(src.pick(cfg.alphabet as usize) as Name)),
            Field::PayU32 => args.push(Arg::P(format!("{}", src.pick(cfg.payload_u32_max as usize + 1)))),
            Field::PaySym => args.push(Arg::P(cfg.symbols[src.pick(cfg.symbols.len())].to_string())),
            Field::PayOther(v) => args.push(Arg::P(v[src.pick(v.len())].to_string())),
            Field::Kid(nb) => {
                let mut bs = Vec::new();
                for _ in 0..*nb {
                    let b = if cfg.bound_from_alphabet {
                        src.pick(cfg.alphabet as usize) as Name
                    } else {
                        50 + (depth as Name) * 4 + bs.len() as Name
                    };
                    bs.push(b);
                }
                // Bind<Bind<..>> binding the same name twice is never generated (ill-formed scope)
                if bs.len() == 2 && bs[0] == bs[1] {
                    bs[1] = (bs[1] + 1) % cfg.alphabet.max(2);
                }
                let k = gen_tm(sig, cfg, src, depth + 1);
                args.push(Arg::K(bs, k));
            }
        }
    }
    let mut t = Tm { op: o.name.to_string(), args };
    if cfg.avoid_same_node_shadowing {
        t = fix_same_node_shadowing(t, cfg.alphabet);
    }
    t
}

/// Rename binders of the root node that clash with a free name of the root node (alpha-renaming
/// of the bound name inside its scope to a name >= 60 unique for the position).
pub fn fix_same_node_shadowing(t: Tm, _alphabet: u8) -> Tm {
    let mut bound_here: Vec<Name> = Vec::new();
    for a in &t.args {
        if let Arg::K(bs, _) = a {
            bound_here.extend(bs.iter().copied());
        }
    }
    if bound_here.is_empty() {
        return t;
    }
    let fv = t.fv();
    let mut args = Vec::new();
    let mut pos = 0u8;
    for a in t.args.into_iter() {
        match a {
            Arg::K(bs, k) => {
                let mut k = k;
                let mut nbs = Vec::new();
                for (i, b) in bs.iter().enumerate() {
                    pos += 1;
                    let dup = bs[..i].contains(b);
                    if fv.contains(b) || dup {
                        // pick a name not occurring anywhere in k and not free in the node
                        let used = k.all_names();
                        let mut nb: Name = 60 + pos;
                        while used.contains(&nb) || fv.contains(&nb) || nbs.contains(&nb) {
                            nb += 1;
                        }
                        // rename free occurrences of b in k to nb (only if not re-bound later in bs)
                        if !bs[i + 1..].contains(b) {
                            let mut m = BTreeMap::new();
                            m.insert(*b, nb);
                            k = rename_free_simple(&k, &m);
                        }
                        nbs.push(nb);
                    } else {
                        nbs.push(*b);
                    }
                }
                args.push(Arg::K(nbs, k));
            }
            other => args.push(other),
        }
    }
    Tm { op: t.op, args }
}

/// rename free occurrences; the target names must not be bound anywhere in `t` (caller's duty)
pub fn rename_free_simple(t: &Tm, m: &BTreeMap<Name, Name>) -> Tm {
    fn go(t: &Tm, m: &BTreeMap<Name, Name>, bound: &mut Vec<Name>) -> Tm {
        Tm {
            op: t.op.clone(),
            args: t
                .args
                .iter()
                .map(|a| match a {
                    Arg::S(n) => {
                        if bound.contains(n) {
                            Arg::S(*n)
                        } else {
                            Arg::S(*m.get(n).unwrap_or(n))
                        }
                    }
                    Arg::P(p) => Arg::P(p.clone()),
                    Arg::K(bs, k) => {
                        let l = bound.len();
                        bound.extend(bs.iter().copied());
                        let k2 = go(k, m, bound);
                        bound.truncate(l);
                        Arg::K(bs.clone(), k2)
                    }
                })
                .collect(),
        }
    }
    go(t, m, &mut Vec::new())
}

/// Reduce the number of free names of every subterm to at most `max_fv` by identifying surplus
/// names with the first ones (keeps the term well formed; only changes which names are used).
pub fn cap_fv(t: &Tm, max_fv: usize) -> Tm {
    // compute the max fv over subterms; if fine, return
    let mut t = t.clone();
    for _ in 0..8 {
        let worst = t.subterms().iter().map(|s| s.fv().len()).max().unwrap_or(0);
        if worst <= max_fv {
            return t;
        }
        // find a subterm with too many names; map its largest free name to its smallest, globally (all names)
        let s = t
            .subterms()
            .into_iter()
            .find(|s| s.fv().len() > max_fv)
            .unwrap()
            .clone();
        let fv: Vec<Name> = s.fv().into_iter().collect();
        let from = *fv.last().unwrap();
        let to = fv[0];
        t = t.rename_all(&|n| if n == from { to } else { n });
        t = fix_all_shadowing_same_node(&t);
    }
    t
}

pub fn fix_all_shadowing_same_node(t: &Tm) -> Tm {
    let args = t
        .args
        .iter()
        .map(|a| match a {
            Arg::K(bs, k) => Arg::K(bs.clone(), fix_all_shadowing_same_node(k)),
            o => o.clone(),
        })
        .collect();
    fix_same_node_shadowing(Tm { op: t.op.clone(), args }, 0)
}

/// pick a subterm position (pre-order index) and return it
pub fn nth_subterm(t: &Tm, i: usize) -> &Tm {
    let subs = t.subterms();
    subs[i % subs.len()]
}

/// replace the i-th subterm (pre-order) by `r`
pub fn replace_nth(t: &Tm, i: usize, r: &Tm) -> Tm {
    fn go(t: &Tm, i: &mut isize, r: &Tm) -> Tm {
        if *i == 0 {
            *i -= 1;
            return r.clone();
        }
        *i -= 1;
        Tm {
            op: t.op.clone(),
            args: t
                .args
                .iter()
                .map(|a| match a {
                    Arg::K(bs, k) => {
                        if *i >= 0 {
                            Arg::K(bs.clone(), go(k, i, r))
                        } else {
                            a.clone()
                        }
                    }
                    o => o.clone(),
                })
                .collect(),
        }
    }
    let n = t.size();
    let mut idx = (i % n) as isize;
    go(t, &mut idx, r)
}

// ------------------------------------------------------------------------------------------------
// parsing model terms from the repository's s-expression syntax (Alpha naming: $a.. = 0.., $nK = K)
// ------------------------------------------------------------------------------------------------

pub fn name_of_alpha(s: &str) -> Option<Name> {
    let s = s.strip_prefix('$')?;
    if s.len() == 1 {
        let c = s.as_bytes()[0];
        if c.is_ascii_lowercase() {
            return Some(c - b'a');
        }
    }
    if let Some(r) = s.strip_prefix('n') {
        return r.parse::<u8>().ok();
    }
    None
}

pub fn parse_tm_text(sig: &LangSig, text: &str) -> Result<Tm, String> {
    let toks: Vec<String> = text
        .replace('(', " ( ")
        .replace(')', " ) ")
        .split_whitespace()
        .map(|s| s.to_string())
        .collect();
    let mut pos = 0;
    let t = parse_tm_toks(sig, &toks, &mut pos)?;
    if pos != toks.len() {
        return Err(format!("trailing tokens in {text}"));
    }
    Ok(t)
}

fn parse_tm_toks(sig: &LangSig, toks: &[String], pos: &mut usize) -> Result<Tm, String> {
    let t = toks.get(*pos).ok_or("unexpected end")?.clone();
    if t == "(" {
        *pos += 1;
        let opn = toks.get(*pos).ok_or("unexpected end")?.clone();
        *pos += 1;
        let o = sig.op(&opn).ok_or(format!("unknown operator {opn}"))?.clone();
        let mut args = Vec::new();
        for f in &o.fields {
            match f {
                Field::Slot => {
                    let s = toks.get(*pos).ok_or("unexpected end")?;
                    args.push(Arg::S(name_of_alpha(s).ok_or(format!("bad slot {s}"))?));
                    *pos += 1;
                }
                Field::PayU32 | Field::PaySym | Field::PayOther(_) => {
                    args.push(Arg::P(toks.get(*pos).ok_or("unexpected end")?.clone()));
                    *pos += 1;
                }
                Field::Kid(nb) => {
                    let mut bs = Vec::new();
                    for _ in 0..*nb {
                        let s = toks.get(*pos).ok_or("unexpected end")?;
                        bs.push(name_of_alpha(s).ok_or(format!("bad slot {s}"))?);
                        *pos += 1;
                    }
                    let k = parse_tm_toks(sig, toks, pos)?;
                    args.push(Arg::K(bs, k));
                }
            }
        }
        if toks.get(*pos).map(|s| s.as_str()) != Some(")") {
            return Err(format!("expected ) at token {}", *pos));
        }
        *pos += 1;
        Ok(Tm { op: opn, args })
    } else {
        *pos += 1;
        // bare: zero-field operator or payload
        if let Some(o) = sig.op(&t) {
            if o.fields.is_empty() {
                return Ok(Tm { op: t, args: vec![] });
            }
        }
        Ok(Tm { op: String::new(), args: vec![Arg::P(t)] })
    }
}
