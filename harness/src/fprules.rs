//! Pool of rewrite rules that are valid in the F_p model (p = 5), with a self-check against the
//! evaluator by random instantiation at the model level.
use crate::langs::{Fp, LangId};
use crate::oracle::fp::*;
use crate::pat::*;
use crate::tm::*;
use slotted_egraphs::*;
use std::collections::{BTreeMap, BTreeSet};

#[derive(Clone, Debug)]
pub struct FpRule {
    pub name: &'static str,
    pub lhs: &'static str,
    pub rhs: &'static str,
    /// conditions: (slot, var): slot must not be free in var
    pub not_free: &'static [(&'static str, &'static str)],
    /// moves a term across a binder or re-binds
    pub binder_rule: bool,
    pub has_subst: bool,
}

const fn r(name: &'static str, lhs: &'static str, rhs: &'static str) -> FpRule {
    FpRule { name, lhs, rhs, not_free: &[], binder_rule: false, has_subst: false }
}
const fn rb(name: &'static str, lhs: &'static str, rhs: &'static str) -> FpRule {
    FpRule { name, lhs, rhs, not_free: &[], binder_rule: true, has_subst: false }
}
const fn rbc(name: &'static str, lhs: &'static str, rhs: &'static str, nf: &'static [(&'static str, &'static str)]) -> FpRule {
    FpRule { name, lhs, rhs, not_free: nf, binder_rule: true, has_subst: false }
}
const fn rbs(name: &'static str, lhs: &'static str, rhs: &'static str) -> FpRule {
    FpRule { name, lhs, rhs, not_free: &[], binder_rule: true, has_subst: true }
}

pub fn fp_rules() -> Vec<FpRule> {
    vec![
        r("add-comm", "(add ?a ?b)", "(add ?b ?a)"),
        r("mul-comm", "(mul ?a ?b)", "(mul ?b ?a)"),
        r("add-assoc", "(add (add ?a ?b) ?c)", "(add ?a (add ?b ?c))"),
        r("add-assoc-rev", "(add ?a (add ?b ?c))", "(add (add ?a ?b) ?c)"),
        r("mul-assoc", "(mul (mul ?a ?b) ?c)", "(mul ?a (mul ?b ?c))"),
        r("distrib", "(mul ?a (add ?b ?c))", "(add (mul ?a ?b) (mul ?a ?c))"),
        r("factor", "(add (mul ?a ?b) (mul ?a ?c))", "(mul ?a (add ?b ?c))"),
        r("add-0", "(add ?a 0)", "?a"),
        r("mul-1", "(mul ?a 1)", "?a"),
        r("mul-0", "(mul ?a 0)", "0"),
        r("neg-neg", "(neg (neg ?a))", "?a"),
        r("add-neg", "(add ?a (neg ?a))", "0"),
        r("neg-as-mul", "(neg ?a)", "(mul 4 ?a)"),
        rb("sum-add", "(sum $x (add ?a ?b))", "(add (sum $x ?a) (sum $x ?b))"),
        rbs("sum-add-rev", "(add (sum $x ?a) (sum $y ?b))", "(sum $x (add ?a ?b[(var $y) := (var $x)]))"),
        rb("scale-in", "(mul ?c (sum $x ?b))", "(sum $x (mul ?c ?b))"),
        rbc("scale-out", "(sum $x (mul ?c ?b))", "(mul ?c (sum $x ?b))", &[("x", "c")]),
        rbc("sum-const", "(sum $x ?c)", "0", &[("x", "c")]),
        rb("sum-var", "(sum $x (var $x))", "0"),
        rb("sum-swap", "(sum $x (sum $y ?b))", "(sum $y (sum $x ?b))"),
        rbs("sum-shift", "(sum $x ?b)", "(sum $x ?b[(var $x) := (add (var $x) 1)])"),
        rbs("let-subst", "(let $x ?b ?e)", "?b[(var $x) := ?e]"),
        rbc("let-unused", "(let $x ?b ?e)", "?b", &[("x", "b")]),
        rb("let-var", "(let $x (var $x) ?e)", "?e"),
        rb("let-add", "(let $x (add ?a ?b) ?e)", "(add (let $x ?a ?e) (let $x ?b ?e))"),
        rb("let-mul", "(let $x (mul ?a ?b) ?e)", "(mul (let $x ?a ?e) (let $x ?b ?e))"),
        rb("let-neg", "(let $x (neg ?a) ?e)", "(neg (let $x ?a ?e))"),
        rb("let-sum", "(let $x (sum $y ?b) ?e)", "(sum $y (let $x ?b ?e))"),
        rb("let-intro", "(add ?a ?a)", "(let $x (add (var $x) (var $x)) ?a)"),
    ]
}

pub fn build_fp_rule<N: Analysis<Fp> + 'static>(rt: &FpRule) -> Rewrite<Fp, N> {
    if rt.not_free.is_empty() {
        Rewrite::new(rt.name, rt.lhs, rt.rhs)
    } else {
        let conds: Vec<(Slot, String)> = rt.not_free.iter().map(|(s, v)| (Slot::named(s), v.to_string())).collect();
        Rewrite::new_if(rt.name, rt.lhs, rt.rhs, move |subst, _| conds.iter().all(|(s, v)| !subst[&**v].slots().contains(s)))
    }
}

/// Model-level validation of one rule by random instantiation; Err = the rule (or the harness's
/// model of patterns) is wrong: a harness bug, never a violation.
pub fn validate_rule(rt: &FpRule, rounds: usize, seed: u64) -> Result<(), String> {
    let sig = LangId::Fp.sig();
    let lhs = parse_pat_text(&sig, rt.lhs)?;
    let rhs = parse_pat_text(&sig, rt.rhs)?;
    let scopes = pvars_scopes(&lhs);
    let bound: BTreeSet<Name> = pat_bound_slots(&lhs).into_iter().chain(pat_bound_slots(&rhs)).collect();
    let mut state = seed.wrapping_mul(0x9E3779B97F4A7C15) | 1;
    let mut next = move || {
        state ^= state << 13;
        state ^= state >> 7;
        state ^= state << 17;
        (state >> 16) as u16
    };
    for round in 0..rounds {
        let mut sigma: BTreeMap<String, Tm> = BTreeMap::new();
        for (v, scope) in &scopes {
            // allowed names: two outer names (0, 1) plus the bound names in scope, minus names excluded by a condition
            let mut allowed: Vec<Name> = vec![0, 1];
            for s in scope {
                let excluded = rt.not_free.iter().any(|(sl, var)| var == v && name_of_alpha(&format!("${}", sl)) == Some(*s));
                if !excluded {
                    allowed.push(*s);
                }
            }
            let ch: Vec<u16> = (0..30).map(|_| next()).collect();
            let cfg = GenCfg { alphabet: allowed.len() as u8, max_depth: 2, bound_from_alphabet: false, avoid_same_node_shadowing: true, ..GenCfg::default() };
            let t = gen_tm(&sig, &cfg, &mut Src::new(&ch), 0);
            // map alphabet indices to the allowed names; generated binders (names >= 50) never clash with pattern slots ('x' = 23 ..)
            let t = t.rename_all(&|n| if (n as usize) < allowed.len() { allowed[n as usize] } else { n });
            sigma.insert(v.clone(), t);
        }
        let mut fresh: Name = 120;
        let l = instantiate(&lhs, &sigma, &BTreeMap::new(), "var", &mut fresh)?;
        let rr = instantiate(&rhs, &sigma, &BTreeMap::new(), "var", &mut fresh)?;
        let _ = &bound;
        if !equal_as_functions(&l, &rr, P) {
            return Err(format!("rule {} is not valid in the model: round {}: {} vs {}", rt.name, round, l.txt(), rr.txt()));
        }
    }
    Ok(())
}

pub fn validate_all() -> Result<(), String> {
    for (i, r) in fp_rules().iter().enumerate() {
        validate_rule(r, 40, i as u64 + 1)?;
    }
    Ok(())
}
