//! Pool of rewrite rules that are valid in the F_p model (p = 5), with a self-check against the
//! evaluator by random instantiation at the model level.
use crate::langs::{Fp, LangId};
use crate::oracle::fp::*;
use crate::pat::*;
use crate::tm::*;
use slotted_egraphs::*;
use std::collections::{BTreeMap, BTreeSet};

#[derive(Clone, Debug)]
pub struct FpRule {
    pub name: &'static str,
    pub lhs: &'static str,
    pub rhs: &'static str,
    /// conditions: (slot, var): slot must not be free in var
    pub not_free: &'static [(&'static str, &'static str)],
    /// additional disjunctive condition (the rule is model-valid with or without it): slot free in none of .. OR ..
    pub or_free: &'static [(&'static str, &'static str)],
    /// moves a term across a binder or re-binds
    pub binder_rule: bool,
    pub has_subst: bool,
}

const fn r(name: &'static str, lhs: &'static str, rhs: &'static str) -> FpRule {
    FpRule { name, lhs, rhs, not_free: &[], or_free: &[], binder_rule: false, has_subst: false }
}
const fn rb(name: &'static str, lhs: &'static str, rhs: &'static str) -> FpRule {
    FpRule { name, lhs, rhs, not_free: &[], or_free: &[], binder_rule: true, has_subst: false }
}
const fn rbc(name: &'static str, lhs: &'static str, rhs: &'static str, nf: &'static [(&'static str, &'static str)]) -> FpRule {
    FpRule { name, lhs, rhs, not_free: nf, or_free: &[], binder_rule: true, has_subst: false }
}
const fn rbs(name: &'static str, lhs: &'static str, rhs: &'static str) -> FpRule {
    FpRule { name, lhs, rhs, not_free: &[], or_free: &[], binder_rule: true, has_subst: true }
}

pub fn fp_rules() -> Vec<FpRule> {
    vec![
        r("add-comm", "(add ?a ?b)", "(add ?b ?a)"),
        r("mul-comm", "(mul ?a ?b)", "(mul ?b ?a)"),
        r("add-assoc", "(add (add ?a ?b) ?c)", "(add ?a (add ?b ?c))"),
        r("add-assoc-rev", "(add ?a (add ?b ?c))", "(add (add ?a ?b) ?c)"),
        r("mul-assoc", "(mul (mul ?a ?b) ?c)", "(mul ?a (mul ?b ?c))"),
        r("distrib", "(mul ?a (add ?b ?c))", "(add (mul ?a ?b) (mul ?a ?c))"),
        r("factor", "(add (mul ?a ?b) (mul ?a ?c))", "(mul ?a (add ?b ?c))"),
        r("add-0", "(add ?a 0)", "?a"),
        r("mul-1", "(mul ?a 1)", "?a"),
        r("mul-0", "(mul ?a 0)", "0"),
        r("neg-neg", "(neg (neg ?a))", "?a"),
        r("add-neg", "(add ?a (neg ?a))", "0"),
        r("neg-as-mul", "(neg ?a)", "(mul 4 ?a)"),
        rb("sum-add", "(sum $x (add ?a ?b))", "(add (sum $x ?a) (sum $x ?b))"),
        rbs("sum-add-rev", "(add (sum $x ?a) (sum $y ?b))", "(sum $x (add ?a ?b[(var $y) := (var $x)]))"),
        rb("scale-in", "(mul ?c (sum $x ?b))", "(sum $x (mul ?c ?b))"),
        rbc("scale-out", "(sum $x (mul ?c ?b))", "(mul ?c (sum $x ?b))", &[("x", "c")]),
        rbc("sum-const", "(sum $x ?c)", "(add ?c ?c)", &[("x", "c")]),
        rb("sum-var", "(sum $x (var $x))", "1"),
        rb("sum-swap", "(sum $x (sum $y ?b))", "(sum $y (sum $x ?b))"),
        rbs("sum-unroll", "(sum $x ?b)", "(add ?b[(var $x) := 0] ?b[(var $x) := 1])"),
        rbs("let-subst", "(let $x ?b ?e)", "?b[(var $x) := ?e]"),
        rbc("let-unused", "(let $x ?b ?e)", "?b", &[("x", "b")]),
        rb("let-var", "(let $x (var $x) ?e)", "?e"),
        rb("let-add", "(let $x (add ?a ?b) ?e)", "(add (let $x ?a ?e) (let $x ?b ?e))"),
        rb("let-mul", "(let $x (mul ?a ?b) ?e)", "(mul (let $x ?a ?e) (let $x ?b ?e))"),
        rb("let-neg", "(let $x (neg ?a) ?e)", "(neg (let $x ?a ?e))"),
        rb("let-sum", "(let $x (sum $y ?b) ?e)", "(sum $y (let $x ?b ?e))"),
        rb("let-intro", "(add ?a ?a)", "(let $x (add (var $x) (var $x)) ?a)"),
        // conditions built from the library's combinators `and`, `or`, `not`
        rbc("scale-out-xy", "(sum $x (sum $y (mul ?a ?b)))", "(mul ?a (sum $x (sum $y ?b)))", &[("x", "a"), ("y", "a")]),
        FpRule { name: "let-add-or", lhs: "(let $x (add ?a ?b) ?e)", rhs: "(add (let $x ?a ?e) (let $x ?b ?e))", not_free: &[], or_free: &[("x", "a"), ("x", "b")], binder_rule: true, has_subst: false },
        FpRule { name: "sum-const-notnot", lhs: "(sum $x (add ?c ?c))", rhs: "(mul 4 ?c)", not_free: &[("x", "c")], or_free: &[("x", "c"), ("x", "c")], binder_rule: true, has_subst: false },
        // a binder that only the right side has, over a pattern variable: valid because the bound name is new, i.e. the variable's
        // term cannot mention it (capture avoidance rests on the fresh names the matcher invents for uncovered slots)
        rb("sum-intro", "(add ?c ?c)", "(sum $z ?c)"),
        rb("let-abstract", "(mul ?a ?b)", "(let $z (mul (var $z) ?b) ?a)"),
        // chains of substitutions (applied left to right; the first replacement may mention the variable replaced second)
        rbs("let-let-flatten", "(let $x (let $y ?b ?f) ?e)", "?b[(var $y) := ?f][(var $x) := ?e]"),
        // a left side with two binders that uses the inner bound slot explicitly next to variables inside and outside its scope
        rb("let-sum-mul-var", "(let $x (sum $i (mul (var $i) ?b)) ?e)", "(sum $i (let $x (mul (var $i) ?b) ?e))"),
        rbs("let-sum-unroll", "(let $x (sum $y ?b) ?e)", "(add ?b[(var $y) := 0][(var $x) := ?e] ?b[(var $y) := 1][(var $x) := ?e])"),
    ]
}

type BoxCond<N> = Box<dyn Fn(&Subst, &EGraph<Fp, N>) -> bool>;

/// the rule with its slots spelled with the names of parameter slots of classes existing in `eg` (see mixed::build_rule_classnamed)
pub fn build_fp_rule_classnamed<N: Analysis<Fp> + 'static>(rt: &FpRule, eg: &EGraph<Fp, N>, k: usize) -> Rewrite<Fp, N> {
    let mut names = crate::mixed::slot_names_in(rt.lhs);
    for n in crate::mixed::slot_names_in(rt.rhs) {
        if !names.contains(&n) {
            names.push(n);
        }
    }
    let map = crate::mixed::class_slot_renaming(&names, eg, k);
    build_fp_rule_with(rt, &|s: &str| crate::mixed::rename_slots_in(s, &map), &|s: &str| map.iter().find(|(a, _)| a == s).map(|(_, b)| b.clone()).unwrap_or(s.to_string()))
}

pub fn build_fp_rule<N: Analysis<Fp> + 'static>(rt: &FpRule) -> Rewrite<Fp, N> {
    build_fp_rule_with(rt, &|s: &str| s.to_string(), &|s: &str| s.to_string())
}

/// conditions are assembled from the library's own combinators (slot_free_in, and, or, not), which are part of what is tested
fn build_fp_rule_with<N: Analysis<Fp> + 'static>(rt: &FpRule, ren_txt: &dyn Fn(&str) -> String, ren_slot: &dyn Fn(&str) -> String) -> Rewrite<Fp, N> {
    let (lhs, rhs) = (ren_txt(rt.lhs), ren_txt(rt.rhs));
    let (lhs, rhs) = (lhs.as_str(), rhs.as_str());
    if rt.not_free.is_empty() && rt.or_free.is_empty() {
        return Rewrite::new(rt.name, lhs, rhs);
    }
    let mut cond: BoxCond<N> = Box::new(|_, _| true);
    let mut first = true;
    for (s, v) in rt.not_free {
        let c = slot_free_in::<Fp, N>(&ren_slot(s), v);
        cond = if first { Box::new(c) } else { Box::new(and::<Fp, N>(cond, c)) };
        first = false;
    }
    if rt.or_free.len() == 2 {
        let (s1, v1) = rt.or_free[0];
        let (s2, v2) = rt.or_free[1];
        if (s1, v1) == (s2, v2) {
            // not(not(c)) in conjunction
            let nn = not::<Fp, N>(not::<Fp, N>(slot_free_in::<Fp, N>(&ren_slot(s1), v1)));
            cond = Box::new(and::<Fp, N>(cond, nn));
        } else {
            let o = or::<Fp, N>(slot_free_in::<Fp, N>(&ren_slot(s1), v1), slot_free_in::<Fp, N>(&ren_slot(s2), v2));
            cond = if first { Box::new(o) } else { Box::new(and::<Fp, N>(cond, o)) };
        }
    }
    Rewrite::new_if(rt.name, lhs, rhs, cond)
}

/// Model-level validation of one rule by random instantiation; Err = the rule (or the harness's
/// model of patterns) is wrong: a harness bug, never a violation.
pub fn validate_rule(rt: &FpRule, rounds: usize, seed: u64) -> Result<(), String> {
    let sig = LangId::Fp.sig();
    let lhs = parse_pat_text(&sig, rt.lhs)?;
    let rhs = parse_pat_text(&sig, rt.rhs)?;
    let scopes = pvars_scopes(&lhs);
    let bound: BTreeSet<Name> = pat_bound_slots(&lhs).into_iter().chain(pat_bound_slots(&rhs)).collect();
    let mut state = seed.wrapping_mul(0x9E3779B97F4A7C15) | 1;
    let mut next = move || {
        state ^= state << 13;
        state ^= state >> 7;
        state ^= state << 17;
        (state >> 16) as u16
    };
    for round in 0..rounds {
        let mut sigma: BTreeMap<String, Tm> = BTreeMap::new();
        for (v, scope) in &scopes {
            // allowed names: two outer names (0, 1) plus the bound names in scope, minus names excluded by a condition
            let mut allowed: Vec<Name> = vec![0, 1];
            for s in scope {
                let excluded = rt.not_free.iter().any(|(sl, var)| var == v && name_of_alpha(&format!("${}", sl)) == Some(*s));
                if !excluded {
                    allowed.push(*s);
                }
            }
            let ch: Vec<u16> = (0..30).map(|_| next()).collect();
            let cfg = GenCfg { alphabet: allowed.len() as u8, max_depth: 2, bound_from_alphabet: false, avoid_same_node_shadowing: true, ..GenCfg::default() };
            let t = gen_tm(&sig, &cfg, &mut Src::new(&ch), 0);
            // map alphabet indices to the allowed names; generated binders (names >= 50) never clash with pattern slots ('x' = 23 ..)
            let t = t.rename_all(&|n| if (n as usize) < allowed.len() { allowed[n as usize] } else { n });
            sigma.insert(v.clone(), t);
        }
        let mut fresh: Name = 120;
        let l = instantiate(&lhs, &sigma, &BTreeMap::new(), "var", &mut fresh)?;
        let rr = instantiate(&rhs, &sigma, &BTreeMap::new(), "var", &mut fresh)?;
        let _ = &bound;
        if !equal_as_functions(&l, &rr, P) {
            return Err(format!("rule {} is not valid in the model: round {}: {} vs {}", rt.name, round, l.txt(), rr.txt()));
        }
    }
    Ok(())
}

pub fn validate_all() -> Result<(), String> {
    for (i, r) in fp_rules().iter().enumerate() {
        validate_rule(r, 40, i as u64 + 1)?;
    }
    Ok(())
}
