//! Fingerprint of an e-graph through the public API only.
use crate::egx::*;
use slotted_egraphs::*;

#[derive(Clone, Debug, PartialEq, Eq)]
pub struct Fingerprint {
    pub nodes: usize,
    pub classes: usize,
    pub live: usize,
    pub slots: usize,
    pub syms: usize,
    /// for every tracked handle: index of the first tracked handle it is eq to
    pub partition: Vec<usize>,
    pub slot_counts: Vec<usize>,
    pub sym_counts: Vec<usize>,
}

pub fn fingerprint<L: Language, N: Analysis<L>>(eg: &EGraph<L, N>, tracked: &[AppliedId]) -> Fingerprint {
    let pr = eg.progress();
    let mut partition = Vec::new();
    for (i, a) in tracked.iter().enumerate() {
        let mut rep = i;
        for (j, b) in tracked.iter().enumerate().take(i) {
            if eg.eq(a, b) {
                rep = j;
                break;
            }
        }
        partition.push(rep);
    }
    let found: Vec<AppliedId> = tracked.iter().map(|a| eg.find_applied_id(a)).collect();
    Fingerprint {
        nodes: eg.total_number_of_nodes(),
        classes: pr.number_of_classes,
        live: pr.number_of_live_classes,
        slots: pr.sum_of_slots,
        syms: pr.sum_of_symmetries,
        partition,
        slot_counts: found.iter().map(|a| a.slots().len()).collect(),
        sym_counts: found.iter().map(|a| if a.slots().len() <= 4 { observed_symmetries(eg, a) } else { 0 }).collect(),
    }
}
