//! Known findings: committed list (/verif/known_findings.json), read-only at run time.
//! Open findings have a trigger predicate (a named harness-side predicate on the case) used to
//! route generated cases around the defect, and a reproducer that is replayed on every run.

use crate::hist::Hist;
use serde::{Deserialize, Serialize};
use std::sync::OnceLock;

#[derive(Clone, Debug, Serialize, Deserialize)]
pub struct Finding {
    pub id: String,
    pub status: String, // "open" | "fixed"
    pub properties: Vec<String>,
    #[serde(default)]
    pub predicate: String,
    #[serde(default)]
    pub reproducers: Vec<Reproducer>,
    pub what: String,
    #[serde(default)]
    pub commit: String,
    #[serde(default)]
    pub line: String,
}

#[derive(Clone, Debug, Serialize, Deserialize)]
pub struct Reproducer {
    pub property: String,
    pub file: String,
    #[serde(default)]
    pub config: String,
}

#[derive(Clone, Debug, Serialize, Deserialize, Default)]
pub struct KnownFile {
    pub findings: Vec<Finding>,
}

static KNOWN: OnceLock<KnownFile> = OnceLock::new();

pub fn verif_root() -> String {
    std::env::var("VERIF_ROOT").unwrap_or_else(|_| "/verif".to_string())
}

pub fn load() -> &'static KnownFile {
    KNOWN.get_or_init(|| {
        let p = format!("{}/known_findings.json", verif_root());
        match std::fs::read_to_string(&p) {
            Ok(s) => serde_json::from_str(&s).unwrap_or_else(|e| panic!("known_findings.json invalid: {e}")),
            Err(_) => KnownFile::default(),
        }
    })
}

static STRICT: std::sync::atomic::AtomicBool = std::sync::atomic::AtomicBool::new(false);

/// strict mode: no routing around open findings (used when replaying a finding's reproducer and by `sev replay`)
pub fn set_strict(b: bool) {
    STRICT.store(b, std::sync::atomic::Ordering::SeqCst);
}

pub fn is_open(id: &str) -> bool {
    if STRICT.load(std::sync::atomic::Ordering::SeqCst) {
        return false;
    }
    load().findings.iter().any(|f| f.id == id && f.status == "open")
}

/// Routing of histories around open findings. Returns the finding id if the case is excluded.
pub fn route_history(_h: &Hist) -> Option<String> {
    None
}

pub fn route_mixed(_c: &crate::mixed::Mixed) -> Option<String> {
    None
}
