//! Tiny textual history runner for debugging: `sev run Core "add (f2 $a $b); add (f2 $b $a); union 0 1; check; dump; eq 0 1"`.
use crate::langs::LangId;
use slotted_egraphs::*;

pub fn lang_by_name(n: &str) -> Option<LangId> {
    crate::langs::ALL_LANGS.iter().copied().find(|l| format!("{:?}", l).eq_ignore_ascii_case(n))
}

thread_local! { static LANG: std::cell::RefCell<String> = std::cell::RefCell::new(String::new()); }

pub fn run(lang: LangId, script: &str) {
    LANG.with(|l| *l.borrow_mut() = format!("{:?}", lang));
    crate::with_lang!(lang, L => run_l::<L>(script))
}

fn run_l<L: Language + 'static>(script: &str) {
    let mut eg: EGraph<L> = EGraph::default();
    let mut ids: Vec<AppliedId> = Vec::new();
    for cmd in script.split(';') {
        let cmd = cmd.trim();
        if cmd.is_empty() {
            continue;
        }
        let (op, rest) = cmd.split_once(' ').unwrap_or((cmd, ""));
        match op {
            "add" => {
                let re = RecExpr::<L>::parse(rest).unwrap();
                let a = eg.add_expr(re);
                println!("t{} = {:?}", ids.len(), a);
                ids.push(a);
            }
            "addsyn" => {
                let re = RecExpr::<L>::parse(rest).unwrap();
                let a = eg.add_syn_expr(re);
                println!("t{} = {:?}", ids.len(), a);
                ids.push(a);
            }
            "union" => {
                let v: Vec<usize> = rest.split_whitespace().map(|x| x.parse().unwrap()).collect();
                let r = eg.union_justified(&ids[v[0]], &ids[v[1]], Some(format!("j{}", v[0] * 100 + v[1])));
                println!("union t{} t{} -> {}", v[0], v[1], r);
            }
            "eq" => {
                let v: Vec<usize> = rest.split_whitespace().map(|x| x.parse().unwrap()).collect();
                println!("eq t{} t{} = {}", v[0], v[1], eg.eq(&ids[v[0]], &ids[v[1]]));
            }
            "lookup" => {
                let re = RecExpr::<L>::parse(rest).unwrap();
                println!("lookup {} = {:?}", rest, lookup_rec_expr(&re, &eg));
            }
            "intern" => {
                for n in rest.split_whitespace() {
                    let _ = Slot::named(n.trim_start_matches('$'));
                }
            }
            "rewrite" => {
                let pool = crate::mixed::rule_pool(crate::script::lang_by_name(LANG.with(|l| l.borrow().clone()).as_str()).unwrap());
                let rules: Vec<Rewrite<L, ()>> = rest.split(',').map(|n| crate::mixed::build_rule::<L, ()>(pool.iter().find(|r| r.name == n.trim()).expect("rule"))).collect();
                println!("rewrite -> {}", apply_rewrites(&mut eg, &rules));
            }
            "check" => {
                eg.check();
                println!("check ok");
            }
            "dump" => eg.dump(),
            "find" => {
                let i: usize = rest.trim().parse().unwrap();
                println!("find t{} = {:?}", i, eg.find_applied_id(&ids[i]));
            }
            "extract" => {
                let i: usize = rest.trim().parse().unwrap();
                println!("extract t{} = {}", i, ast_size_extract(&ids[i], &eg));
            }
            "progress" => {
                let p = eg.progress();
                println!("classes {} live {} slots {} syms {}", p.number_of_classes, p.number_of_live_classes, p.sum_of_slots, p.sum_of_symmetries);
            }
            #[cfg(feature = "explanations")]
            "explain" => {
                let (a, b) = rest.split_once('=').unwrap();
                let p = eg.explain_equivalence(RecExpr::parse(a.trim()).unwrap(), RecExpr::parse(b.trim()).unwrap());
                println!("{}", p.to_string(&eg));
            }
            _ => panic!("unknown command {op}"),
        }
    }
}
