//! Ground congruence closure over a finite name pool (DESIGN §2.4).
//!
//! Universe: every injective instantiation (into the pool 0..n) of every subterm (binder bodies
//! included, with the bound names free) of the given terms.  Equality is plain congruence
//! closure on that finite universe, with binder children compared under a common tuple of pool
//! names that is fresh for both nodes.  No slots-as-parameters, no shapes with bijections, no
//! permutation groups, no union-find with slot maps.

use crate::tm::{Arg, Name, Tm};
use std::collections::{BTreeMap, BTreeSet, HashMap};

#[derive(Clone, Debug, PartialEq, Eq, Hash, PartialOrd, Ord)]
pub enum From {
    Parent(usize),
    Binder(usize),
}

#[derive(Clone, Debug, PartialEq, Eq, Hash, PartialOrd, Ord)]
pub enum SItem {
    Slot(usize),
    Pay(String),
    Kid { nb: usize, shape: usize, map: Vec<From> },
}

#[derive(Clone, Debug, PartialEq, Eq, Hash, PartialOrd, Ord)]
pub struct ShapeNode {
    pub op: String,
    pub items: Vec<SItem>,
    pub arity: usize,
}

#[derive(Default, Clone)]
pub struct Shapes {
    pub nodes: Vec<ShapeNode>,
    index: BTreeMap<ShapeNode, usize>,
}

impl Shapes {
    /// canonical shape id and the tuple of free names (in order of first occurrence)
    pub fn canon(&mut self, t: &Tm) -> (usize, Vec<Name>) {
        let order = t.fv_order();
        let idx = |n: Name| order.iter().position(|x| *x == n).unwrap();
        let mut items = Vec::new();
        for a in &t.args {
            match a {
                Arg::S(n) => items.push(SItem::Slot(idx(*n))),
                Arg::P(p) => items.push(SItem::Pay(p.clone())),
                Arg::K(bs, k) => {
                    let (ks, ktuple) = self.canon(k);
                    let map = ktuple
                        .iter()
                        .map(|n| match bs.iter().rposition(|b| b == n) {
                            Some(p) => From::Binder(p),
                            None => From::Parent(idx(*n)),
                        })
                        .collect();
                    items.push(SItem::Kid { nb: bs.len(), shape: ks, map });
                }
            }
        }
        let node = ShapeNode { op: t.op.clone(), items, arity: order.len() };
        let id = if let Some(i) = self.index.get(&node) {
            *i
        } else {
            let i = self.nodes.len();
            self.nodes.push(node.clone());
            self.index.insert(node, i);
            i
        };
        (id, order)
    }

    pub fn lookup(&self, t: &Tm) -> Option<(usize, Vec<Name>)> {
        // non-inserting variant
        let order = t.fv_order();
        let idx = |n: Name| order.iter().position(|x| *x == n).unwrap();
        let mut items = Vec::new();
        for a in &t.args {
            match a {
                Arg::S(n) => items.push(SItem::Slot(idx(*n))),
                Arg::P(p) => items.push(SItem::Pay(p.clone())),
                Arg::K(bs, k) => {
                    let (ks, ktuple) = self.lookup(k)?;
                    let map = ktuple
                        .iter()
                        .map(|n| match bs.iter().rposition(|b| b == n) {
                            Some(p) => From::Binder(p),
                            None => From::Parent(idx(*n)),
                        })
                        .collect();
                    items.push(SItem::Kid { nb: bs.len(), shape: ks, map });
                }
            }
        }
        let node = ShapeNode { op: t.op.clone(), items, arity: order.len() };
        self.index.get(&node).map(|i| (*i, order))
    }
}

pub struct Ground {
    pub n: usize,
    pub shapes: Shapes,
    base: Vec<usize>,
    uf: Vec<u32>,
    head: Vec<u32>,
    maxnb: Vec<usize>,
    pub merges: u64,
    pub node_count: usize,
    /// safety cap on the universe size
    pub too_big: bool,
}

pub const MAX_UNIVERSE: usize = 3_000_000;

fn pow(n: usize, k: usize) -> usize {
    let mut r = 1usize;
    for _ in 0..k {
        r = r.saturating_mul(n);
    }
    r
}

impl Ground {
    /// `terms`: all terms (roots) that will ever be mentioned; `n`: pool size.
    pub fn new(terms: &[Tm], n: usize) -> Ground {
        let mut shapes = Shapes::default();
        for t in terms {
            shapes.canon(t);
        }
        let mut base = Vec::new();
        let mut total = 0usize;
        for s in &shapes.nodes {
            base.push(total);
            total = total.saturating_add(pow(n, s.arity));
        }
        let too_big = total > MAX_UNIVERSE;
        let mut heads: BTreeMap<(String, Vec<(u8, String, usize)>), u32> = BTreeMap::new();
        let mut head = Vec::new();
        let mut maxnb = Vec::new();
        for s in &shapes.nodes {
            let k: Vec<(u8, String, usize)> = s
                .items
                .iter()
                .map(|i| match i {
                    SItem::Slot(_) => (0u8, String::new(), 0usize),
                    SItem::Pay(p) => (1u8, p.clone(), 0),
                    SItem::Kid { nb, .. } => (2u8, String::new(), *nb),
                })
                .collect();
            let l = heads.len() as u32;
            let h = *heads.entry((s.op.clone(), k)).or_insert(l);
            head.push(h);
            maxnb.push(
                s.items
                    .iter()
                    .map(|i| match i {
                        SItem::Kid { nb, .. } => *nb,
                        _ => 0,
                    })
                    .max()
                    .unwrap_or(0),
            );
        }
        let uf = if too_big { Vec::new() } else { (0..total as u32).collect() };
        Ground { n, shapes, base, uf, head, maxnb, merges: 0, node_count: total, too_big }
    }

    /// maximal number of free names of any subterm (incl. binder bodies) of the terms
    pub fn max_fv(terms: &[Tm]) -> usize {
        terms
            .iter()
            .flat_map(|t| t.subterms())
            .map(|s| s.fv().len())
            .max()
            .unwrap_or(0)
    }

    fn gid(&self, shape: usize, tuple: &[usize]) -> u32 {
        let mut r = 0usize;
        let mut mul = 1usize;
        for v in tuple {
            r += v * mul;
            mul *= self.n;
        }
        (self.base[shape] + r) as u32
    }

    fn find(&self, mut x: u32) -> u32 {
        while self.uf[x as usize] != x {
            x = self.uf[x as usize];
        }
        x
    }

    fn find_c(&mut self, x: u32) -> u32 {
        let r = self.find(x);
        let mut y = x;
        while self.uf[y as usize] != r {
            let nx = self.uf[y as usize];
            self.uf[y as usize] = r;
            y = nx;
        }
        r
    }

    fn union(&mut self, a: u32, b: u32) -> bool {
        let (ra, rb) = (self.find_c(a), self.find_c(b));
        if ra == rb {
            return false;
        }
        // deterministic: smaller id is the representative
        if ra < rb {
            self.uf[rb as usize] = ra;
        } else {
            self.uf[ra as usize] = rb;
        }
        self.merges += 1;
        true
    }

    /// all injective tuples of length k over 0..n, calling f
    fn inj_tuples(n: usize, k: usize, f: &mut dyn FnMut(&[usize])) {
        fn go(n: usize, k: usize, cur: &mut Vec<usize>, f: &mut dyn FnMut(&[usize])) {
            if cur.len() == k {
                f(cur);
                return;
            }
            for v in 0..n {
                if !cur.contains(&v) {
                    cur.push(v);
                    go(n, k, cur, f);
                    cur.pop();
                }
            }
        }
        go(n, k, &mut Vec::new(), f);
    }

    /// Assert a = b (names shared between the two sides are identified) for every injective
    /// instantiation into the pool, then close under congruence.
    pub fn assert_eq(&mut self, a: &Tm, b: &Tm) {
        let (sa, ta) = self.shapes.lookup(a).expect("term not in universe");
        let (sb, tb) = self.shapes.lookup(b).expect("term not in universe");
        let mut names: Vec<Name> = ta.clone();
        for x in &tb {
            if !names.contains(x) {
                names.push(*x);
            }
        }
        assert!(names.len() <= self.n, "pool too small for equation");
        let pa: Vec<usize> = ta.iter().map(|x| names.iter().position(|y| y == x).unwrap()).collect();
        let pb: Vec<usize> = tb.iter().map(|x| names.iter().position(|y| y == x).unwrap()).collect();
        let n = self.n;
        let mut pairs: Vec<(u32, u32)> = Vec::new();
        {
            let this = &*self;
            Self::inj_tuples(n, names.len(), &mut |tu| {
                let ia: Vec<usize> = pa.iter().map(|i| tu[*i]).collect();
                let ib: Vec<usize> = pb.iter().map(|i| tu[*i]).collect();
                pairs.push((this.gid(sa, &ia), this.gid(sb, &ib)));
            });
        }
        for (x, y) in pairs {
            self.union(x, y);
        }
        self.close();
    }

    /// congruence closure to fixpoint (naive rounds over a signature table)
    pub fn close(&mut self) {
        let n = self.n;
        loop {
            let mut table: HashMap<Vec<u32>, u32> = HashMap::new();
            let mut to_merge: Vec<(u32, u32)> = Vec::new();
            for s in 0..self.shapes.nodes.len() {
                let node = self.shapes.nodes[s].clone();
                if !node.items.iter().any(|i| matches!(i, SItem::Kid { .. })) {
                    continue;
                }
                let maxnb = self.maxnb[s];
                let head = self.head[s];
                let mut tuples: Vec<Vec<usize>> = Vec::new();
                Self::inj_tuples(n, node.arity, &mut |tu| tuples.push(tu.to_vec()));
                for tu in &tuples {
                    let g = self.gid(s, tu);
                    // fresh tuples: injective tuples of length maxnb over names not in tu
                    let avail: Vec<usize> = (0..n).filter(|v| !tu.contains(v)).collect();
                    let mut fresh_tuples: Vec<Vec<usize>> = Vec::new();
                    if maxnb == 0 {
                        fresh_tuples.push(Vec::new());
                    } else {
                        Self::inj_tuples(avail.len(), maxnb, &mut |ft| {
                            fresh_tuples.push(ft.iter().map(|i| avail[*i]).collect())
                        });
                    }
                    for ft in &fresh_tuples {
                        let mut key: Vec<u32> = Vec::with_capacity(2 + node.items.len() + ft.len());
                        key.push(head);
                        for p in ft {
                            key.push(*p as u32);
                        }
                        key.push(u32::MAX);
                        for it in &node.items {
                            match it {
                                SItem::Slot(i) => key.push(tu[*i] as u32),
                                SItem::Pay(_) => {}
                                SItem::Kid { shape, map, .. } => {
                                    let ct: Vec<usize> = map
                                        .iter()
                                        .map(|m| match m {
                                            From::Parent(j) => tu[*j],
                                            From::Binder(b) => ft[*b],
                                        })
                                        .collect();
                                    let cg = self.gid(*shape, &ct);
                                    key.push(self.find(cg));
                                }
                            }
                        }
                        match table.get(&key) {
                            Some(other) => {
                                if *other != g {
                                    to_merge.push((*other, g));
                                }
                            }
                            None => {
                                table.insert(key, g);
                            }
                        }
                    }
                }
            }
            let mut changed = false;
            for (a, b) in to_merge {
                if self.union(a, b) {
                    changed = true;
                }
            }
            if !changed {
                break;
            }
        }
    }

    fn inst(&self, t: &Tm, assign: &dyn Fn(Name) -> usize) -> Option<u32> {
        let (s, tu) = self.shapes.lookup(t)?;
        let it: Vec<usize> = tu.iter().map(|x| assign(*x)).collect();
        Some(self.gid(s, &it))
    }

    /// Are a and b (sharing names) equal?  None if a term is outside the universe.
    pub fn eq_terms(&self, a: &Tm, b: &Tm) -> Option<bool> {
        let mut names: Vec<Name> = a.fv_order();
        for x in b.fv_order() {
            if !names.contains(&x) {
                names.push(x);
            }
        }
        if names.len() > self.n {
            return None;
        }
        let f = |x: Name| names.iter().position(|y| *y == x).unwrap();
        let ga = self.inst(a, &f)?;
        let gb = self.inst(b, &f)?;
        Some(self.find(ga) == self.find(gb))
    }

    /// Is t independent of its free name x  (t = t[x := z], z fresh)?
    pub fn redundant(&self, t: &Tm, x: Name) -> Option<bool> {
        let names = t.fv_order();
        if names.len() + 1 > self.n {
            return None;
        }
        let k = names.len();
        let f = |y: Name| names.iter().position(|z| *z == y).unwrap();
        let g = |y: Name| if y == x { k } else { names.iter().position(|z| *z == y).unwrap() };
        let ga = self.inst(t, &f)?;
        let gb = self.inst(t, &g)?;
        Some(self.find(ga) == self.find(gb))
    }

    /// Is t equal to t with its free names permuted by sigma (a map on names)?
    pub fn symmetric(&self, t: &Tm, sigma: &BTreeMap<Name, Name>) -> Option<bool> {
        let names = t.fv_order();
        let f = |y: Name| names.iter().position(|z| *z == y).unwrap();
        let g = |y: Name| {
            let y2 = *sigma.get(&y).unwrap_or(&y);
            names.iter().position(|z| *z == y2).unwrap()
        };
        let ga = self.inst(t, &f)?;
        let gb = self.inst(t, &g)?;
        Some(self.find(ga) == self.find(gb))
    }

    /// set of class representatives reachable by instantiating t injectively
    pub fn reps(&self, t: &Tm) -> Option<BTreeSet<u32>> {
        let (s, tu) = self.shapes.lookup(t)?;
        let mut out = BTreeSet::new();
        let this = self;
        Self::inj_tuples(self.n, tu.len(), &mut |it| {
            out.insert(this.find(this.gid(s, it)));
        });
        Some(out)
    }

    /// representative of the canonical instance (names -> 0..k in first-occurrence order)
    pub fn rep0(&self, t: &Tm) -> Option<u32> {
        let (s, tu) = self.shapes.lookup(t)?;
        let it: Vec<usize> = (0..tu.len()).collect();
        Some(self.find(self.gid(s, &it)))
    }
}

/// Summary derived from the oracle for a set of inserted (sub)terms: the number of classes modulo
/// renaming, the sum over classes of non-redundant slots and of symmetry-group sizes.
pub struct Totals {
    pub classes: usize,
    pub sum_slots: usize,
    pub sum_syms: usize,
}

pub fn perms_of(v: &[Name]) -> Vec<Vec<Name>> {
    fn go(v: &[Name], cur: &mut Vec<Name>, out: &mut Vec<Vec<Name>>) {
        if cur.len() == v.len() {
            out.push(cur.clone());
            return;
        }
        for x in v {
            if !cur.contains(x) {
                cur.push(*x);
                go(v, cur, out);
                cur.pop();
            }
        }
    }
    let mut out = Vec::new();
    go(v, &mut Vec::new(), &mut out);
    out
}

impl Ground {
    pub fn nonredundant(&self, t: &Tm) -> Option<Vec<Name>> {
        let mut out = Vec::new();
        for x in t.fv_order() {
            if !self.redundant(t, x)? {
                out.push(x);
            }
        }
        Some(out)
    }

    pub fn symmetry_count(&self, t: &Tm) -> Option<usize> {
        let nr = self.nonredundant(t)?;
        let mut c = 0;
        for p in perms_of(&nr) {
            let sigma: BTreeMap<Name, Name> = nr.iter().copied().zip(p.iter().copied()).collect();
            if self.symmetric(t, &sigma)? {
                c += 1;
            }
        }
        Some(c)
    }

    pub fn totals(&self, subterms: &[Tm]) -> Option<Totals> {
        // group subterms into classes modulo renaming
        let mut reps: Vec<(Tm, BTreeSet<u32>)> = Vec::new();
        for t in subterms {
            let r0 = self.rep0(t)?;
            if reps.iter().any(|(_, rs)| rs.contains(&r0)) {
                continue;
            }
            reps.push((t.clone(), self.reps(t)?));
        }
        let mut sum_slots = 0;
        let mut sum_syms = 0;
        for (t, _) in &reps {
            sum_slots += self.nonredundant(t)?.len();
            sum_syms += self.symmetry_count(t)?;
        }
        Some(Totals { classes: reps.len(), sum_slots, sum_syms })
    }
}
