//! Bellman-Ford style reference for extraction costs: iterate min over e-nodes from infinity to a fixpoint.
//! Independent of the library's priority queue / class normal forms.
use slotted_egraphs::*;
use std::collections::BTreeMap;

pub fn reference_costs<L: Language, N: Analysis<L>, CF: CostFunction<L>>(eg: &EGraph<L, N>, cf: &CF) -> BTreeMap<Id, CF::Cost> {
    let mut cost: BTreeMap<Id, CF::Cost> = BTreeMap::new();
    let ids = eg.ids();
    let nodes: Vec<(Id, Vec<L>)> = ids.iter().map(|i| (*i, eg.enodes(*i).into_iter().collect())).collect();
    loop {
        let mut changed = false;
        for (i, ns) in &nodes {
            for n in ns {
                if n.applied_id_occurrences().iter().all(|c| cost.contains_key(&c.id)) {
                    let c = cf.cost(n, |id| cost[&id].clone());
                    match cost.get(i) {
                        Some(old) if *old <= c => {}
                        _ => {
                            cost.insert(*i, c);
                            changed = true;
                        }
                    }
                }
            }
        }
        if !changed {
            break;
        }
    }
    cost
}

/// the cheapest e-node of every class under the reference costs (ties: first in the sorted order of nodes)
pub fn best_nodes<L: Language, N: Analysis<L>, CF: CostFunction<L>>(eg: &EGraph<L, N>, cf: &CF) -> BTreeMap<Id, L> {
    let cost = reference_costs(eg, cf);
    let mut out = BTreeMap::new();
    for i in eg.ids() {
        let mut ns: Vec<L> = eg.enodes(i).into_iter().collect();
        ns.sort();
        for n in ns {
            if n.applied_id_occurrences().iter().all(|c| cost.contains_key(&c.id)) {
                let c = cf.cost(&n, |id| cost[&id].clone());
                if Some(&c) == cost.get(&i) {
                    out.insert(i, n);
                    break;
                }
            }
        }
    }
    out
}

/// position-weighted size: 1 + sum (i+1) * cost(child i)   (strictly monotone)
#[derive(Default, Clone, Copy)]
pub struct PosWeighted;
impl<L: Language> CostFunction<L> for PosWeighted {
    type Cost = u64;
    fn cost<C>(&self, enode: &L, costs: C) -> u64
    where
        C: Fn(Id) -> u64,
    {
        let mut s = 1u64;
        for (i, x) in enode.applied_id_occurrences().iter().enumerate() {
            s = s.saturating_add((i as u64 + 1).saturating_mul(costs(x.id)));
        }
        s
    }
}

/// per-operator weighted size: weight(op) + sum cost(child)   (strictly monotone, weights 1..7 from the operator's name)
#[derive(Default, Clone, Copy)]
pub struct OpWeighted;
impl<L: Language> CostFunction<L> for OpWeighted {
    type Cost = u64;
    fn cost<C>(&self, enode: &L, costs: C) -> u64
    where
        C: Fn(Id) -> u64,
    {
        let w = match enode.to_syntax().first() {
            Some(SyntaxElem::String(s)) => 1 + (s.bytes().fold(0u64, |a, b| a.wrapping_mul(31).wrapping_add(b as u64)) % 7),
            _ => 1,
        };
        let mut s = w;
        for x in enode.applied_id_occurrences() {
            s = s.saturating_add(costs(x.id));
        }
        s
    }
}
