pub mod bf;
pub mod fp;
pub mod ground;
