pub mod ground;
