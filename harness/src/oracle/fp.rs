//! Arithmetic over the prime field F_p with a summation binder and a let binder (model for C03, C14, C15).
use crate::tm::*;
use std::collections::BTreeMap;

pub const P: u32 = 5;
/// the summation binder ranges over the index set {0, .., SUM_RANGE-1} of the field (a sum over the whole field would make
/// almost every polynomial sum vanish, which would hide wrong e-nodes)
pub const SUM_RANGE: u32 = 2;

pub fn eval(t: &Tm, env: &BTreeMap<Name, u32>, p: u32) -> u32 {
    let kid = |i: usize| -> (&Vec<Name>, &Tm) { t.kids()[i] };
    match t.op.as_str() {
        "var" => {
            let Arg::S(n) = &t.args[0] else { panic!() };
            *env.get(n).unwrap_or_else(|| panic!("unbound name {n} in model evaluation")) % p
        }
        "" => {
            let Arg::P(s) = &t.args[0] else { panic!() };
            s.parse::<u32>().unwrap() % p
        }
        "add" => (eval(kid(0).1, env, p) + eval(kid(1).1, env, p)) % p,
        "mul" => (eval(kid(0).1, env, p) * eval(kid(1).1, env, p)) % p,
        "neg" => (p - eval(kid(0).1, env, p)) % p,
        "sum" => {
            let (bs, b) = kid(0);
            let mut s = 0;
            for v in 0..SUM_RANGE.min(p) {
                let mut e = env.clone();
                e.insert(bs[0], v);
                s = (s + eval(b, &e, p)) % p;
            }
            s
        }
        "let" => {
            let (bs, b) = kid(0);
            let (_, e) = kid(1);
            let v = eval(e, env, p);
            let mut e2 = env.clone();
            e2.insert(bs[0], v);
            eval(b, &e2, p)
        }
        o => panic!("unknown Fp operator {o}"),
    }
}

/// are two terms equal as functions of their free names (exhaustive over all environments)?
pub fn equal_as_functions(a: &Tm, b: &Tm, p: u32) -> bool {
    let mut names: Vec<Name> = a.fv().into_iter().collect();
    for n in b.fv() {
        if !names.contains(&n) {
            names.push(n);
        }
    }
    let k = names.len();
    let total = (p as usize).pow(k as u32);
    for idx in 0..total {
        let mut env = BTreeMap::new();
        let mut x = idx;
        for n in &names {
            env.insert(*n, (x % p as usize) as u32);
            x /= p as usize;
        }
        if eval(a, &env, p) != eval(b, &env, p) {
            return false;
        }
    }
    true
}
