//! Evidence files, replay files, the check driver.

use crate::engine::*;
use crate::known;
use serde_json::{json, Value};
use std::path::{Path, PathBuf};
use std::time::Instant;

pub fn verif_root() -> PathBuf {
    PathBuf::from(known::verif_root())
}

fn fnv(s: &str) -> u64 {
    let mut h: u64 = 0xcbf29ce484222325;
    for b in s.as_bytes() {
        h ^= *b as u64;
        h = h.wrapping_mul(0x100000001b3);
    }
    h
}

pub fn write_replay(prop: &str, f: &Failure) -> PathBuf {
    let dir = verif_root().join("replays").join(prop);
    let _ = std::fs::create_dir_all(&dir);
    let v = json!({
        "property": prop,
        "stage": f.stage,
        "config": crate::config_name(),
        "message": f.message,
        "rendered": f.rendered,
        "case": f.case_json,
    });
    let txt = serde_json::to_string_pretty(&v).unwrap();
    let name = format!("{}-{:016x}.json", f.stage, fnv(&format!("{}{}", f.stage, f.case_json)));
    let p = dir.join(name);
    std::fs::write(&p, txt).expect("write replay");
    p
}

/// Replays a file. Ok(None) = passes; Ok(Some(msg)) = fails with msg.
pub fn replay_file(path: &Path, tier: Tier) -> Result<Option<String>, String> {
    let txt = std::fs::read_to_string(path).map_err(|e| format!("{}: {e}", path.display()))?;
    let v: Value = serde_json::from_str(&txt).map_err(|e| format!("{}: {e}", path.display()))?;
    let prop = v["property"].as_str().ok_or("no property")?;
    let stage = v["stage"].as_str().ok_or("no stage")?;
    let p = crate::props::property(prop, tier).ok_or_else(|| format!("unknown property {prop}"))?;
    let st = p
        .stages
        .iter()
        .find(|s| s.name() == stage)
        .ok_or_else(|| format!("unknown stage {stage} of {prop}"))?;
    let (r, _rendered) = st.replay(&v["case"])?;
    Ok(r.err())
}

pub fn replay_config_matches(path: &Path) -> bool {
    let Ok(txt) = std::fs::read_to_string(path) else { return true };
    let Ok(v) = serde_json::from_str::<Value>(&txt) else { return true };
    match v.get("config").and_then(|c| c.as_str()) {
        None | Some("") | Some("any") => true,
        Some(c) => c == crate::config_name(),
    }
}

pub struct CheckResult {
    pub exit: i32,
}

pub fn run_check(prop_id: &str, tier: Tier, seed: u64, part_out: Option<&Path>, only_stage: Option<&str>) -> CheckResult {
    let start = Instant::now();
    install_panic_hook();
    set_thorough(tier == Tier::Thorough);
    let Some(p) = crate::props::property(prop_id, tier) else {
        eprintln!("unknown property {prop_id}");
        return CheckResult { exit: 2 };
    };
    let mut violations: Vec<(String, PathBuf)> = Vec::new();
    let mut inconclusive: Vec<String> = Vec::new();
    let mut known_lines: Vec<String> = Vec::new();

    // 1. open known findings: replay reproducers
    let kf = known::load();
    for f in &kf.findings {
        if f.status != "open" {
            continue;
        }
        for r in &f.reproducers {
            if r.property != prop_id {
                continue;
            }
            if !r.config.is_empty() && r.config != "any" && r.config != crate::config_name() {
                continue;
            }
            let path = verif_root().join(&r.file);
            known::set_strict(true);
            let res = replay_file(&path, tier);
            known::set_strict(false);
            match res {
                Ok(Some(_msg)) => {
                    let line = format!("KNOWN-FINDING: property={} {} [{}; reproducer {}]", prop_id, f.what, f.id, r.file);
                    println!("{line}");
                    known_lines.push(line);
                }
                Ok(None) => {
                    println!("note: known finding {} no longer reproduces for {} ({})", f.id, prop_id, r.file);
                }
                Err(e) => {
                    eprintln!("warning: cannot replay reproducer {}: {e}", r.file);
                }
            }
        }
    }

    // 2. regression corpus
    let mut corpus_n = 0u64;
    let cdir = verif_root().join("corpus").join(prop_id);
    if let Ok(rd) = std::fs::read_dir(&cdir) {
        let mut files: Vec<PathBuf> = rd.filter_map(|e| e.ok()).map(|e| e.path()).filter(|p| p.extension().map(|x| x == "json").unwrap_or(false)).collect();
        files.sort();
        for f in files {
            if !replay_config_matches(&f) {
                continue;
            }
            corpus_n += 1;
            match replay_file(&f, tier) {
                Ok(None) => {}
                Ok(Some(msg)) => {
                    eprintln!("corpus case {} fails: {msg}", f.display());
                    violations.push((msg, f.clone()));
                }
                Err(e) => {
                    eprintln!("warning: corpus file unreadable: {e}");
                }
            }
        }
    }

    // 3. stages
    let mut stage_stats: Vec<StageStats> = Vec::new();
    if violations.is_empty() {
        for st in &p.stages {
            if let Some(o) = only_stage {
                if st.name() != o {
                    continue;
                }
            }
            let t0 = Instant::now();
            let stats = st.run_all(prop_id, seed, tier.pick(600, 3000), p.scale);
            eprintln!(
                "[{}:{}:{}] evals={} nontrivial={} cmp={} aborted={} excluded={:?} {:.1}s",
                prop_id,
                crate::config_name(),
                st.name(),
                stats.evaluations,
                stats.nontrivial_hashes.len(),
                stats.comparisons,
                stats.aborted_by_panic,
                stats.excluded_known,
                t0.elapsed().as_secs_f64()
            );
            for sc in &stats.slow_cases {
                eprintln!("  slow case: {}", sc);
            }
            if let Some(f) = &stats.failure {
                let path = write_replay(prop_id, f);
                eprintln!("failure in stage {}: {}\n  case: {}", f.stage, f.message, f.rendered);
                violations.push((f.message.clone(), path));
            }
            for i in &stats.inconclusive {
                inconclusive.push(format!("stage {}: {}", st.name(), i));
            }
            if let Some(t) = &stats.timed_out {
                inconclusive.push(format!("stage {} timed out on case {}", st.name(), t));
            }
            if stats.evaluations > 20 && stats.aborted_by_panic * 10 > stats.evaluations {
                inconclusive.push(format!(
                    "stage {}: {} of {} cases aborted by panic (generator no longer reaches the property); e.g. {:?}",
                    st.name(),
                    stats.aborted_by_panic,
                    stats.evaluations,
                    stats.abort_samples.first()
                ));
            }
            // after a watchdog trip the remaining stages are not started: the spinning case threads would only starve them
            let stop = stats.failure.is_some() || stats.timed_out.is_some();
            stage_stats.push(stats);
            if stop {
                break;
            }
        }
    }

    // 4. evidence
    let evaluations: u64 = stage_stats.iter().map(|s| s.evaluations).sum::<u64>() + corpus_n;
    let distinct: u64 = stage_stats.iter().map(|s| s.nontrivial_hashes.len() as u64).sum();
    let mut samples: Vec<Value> = Vec::new();
    for s in &stage_stats {
        for x in s.samples.iter().take(3) {
            samples.push(json!({"stage": s.stage, "config": crate::config_name(), "case": x}));
        }
    }
    let rule = stage_stats
        .iter()
        .map(|s| format!("[{}] {}", s.stage, s.rule))
        .collect::<Vec<_>>()
        .join(" || ");
    let stages_json: Vec<Value> = stage_stats
        .iter()
        .map(|s| {
            json!({
                "stage": s.stage,
                "config": crate::config_name(),
                "evaluations": s.evaluations,
                "distinct_nontrivial": s.nontrivial_hashes.len(),
                "oracle_comparisons": s.comparisons,
                "classes": s.labels,
                "counters": s.counters,
                "aborted_by_panic": s.aborted_by_panic,
                "abort_samples": s.abort_samples,
                "excluded_known": s.excluded_known,
                "exhaustive": s.exhaustive,
                "shrink_runs": s.shrink_runs,
                "slow_cases": s.slow_cases,
            })
        })
        .collect();
    let all_exh = !stage_stats.is_empty() && stage_stats.iter().all(|s| s.exhaustive);
    let ev = json!({
        "property_id": prop_id,
        "tier": tier.name(),
        "seed": seed,
        "level": "exploration",
        "coverage": {
            "evaluations": evaluations,
            "distinct_nontrivial": distinct,
            "rule": rule,
            "samples": samples,
            "exhaustive": all_exh,
            "stages": stages_json,
            "corpus_cases_replayed": corpus_n,
            "configs": [crate::config_name()],
            "known_findings_reported": known_lines,
        },
        "assumptions": p.assumptions,
        "wall_s": start.elapsed().as_secs_f64(),
        "violations": violations.len(),
    });
    let out = match part_out {
        Some(p) => p.to_path_buf(),
        None => verif_root().join("evidence").join(format!("{prop_id}.json")),
    };
    if let Some(d) = out.parent() {
        let _ = std::fs::create_dir_all(d);
    }
    std::fs::write(&out, serde_json::to_string_pretty(&ev).unwrap()).expect("write evidence");

    for (_, path) in &violations {
        println!("VIOLATION property={} replay={}", prop_id, path.display());
    }
    if !violations.is_empty() {
        return CheckResult { exit: 1 };
    }
    if !inconclusive.is_empty() {
        for i in &inconclusive {
            println!("INCONCLUSIVE property={} {}", prop_id, i);
        }
        return CheckResult { exit: 2 };
    }
    // generator health: non-trivial cases must exist
    if distinct < 2 && only_stage.is_none() {
        println!("INCONCLUSIVE property={} fewer than 2 distinct non-trivial cases", prop_id);
        return CheckResult { exit: 2 };
    }
    println!("OK property={} config={} evaluations={} distinct_nontrivial={}", prop_id, crate::config_name(), evaluations, distinct);
    CheckResult { exit: 0 }
}

/// merge evidence parts (one per build configuration) into the final evidence file
pub fn merge_parts(prop_id: &str, parts: &[PathBuf]) -> Result<(), String> {
    let mut merged: Option<Value> = None;
    for p in parts {
        let txt = std::fs::read_to_string(p).map_err(|e| format!("{}: {e}", p.display()))?;
        let v: Value = serde_json::from_str(&txt).map_err(|e| format!("{e}"))?;
        match &mut merged {
            None => merged = Some(v),
            Some(m) => {
                let add = |m: &mut Value, v: &Value, k: &str| {
                    let a = m["coverage"][k].as_u64().unwrap_or(0) + v["coverage"][k].as_u64().unwrap_or(0);
                    m["coverage"][k] = json!(a);
                };
                add(m, &v, "evaluations");
                add(m, &v, "distinct_nontrivial");
                add(m, &v, "corpus_cases_replayed");
                for k in ["samples", "stages", "configs", "known_findings_reported"] {
                    let mut a = m["coverage"][k].as_array().cloned().unwrap_or_default();
                    a.extend(v["coverage"][k].as_array().cloned().unwrap_or_default());
                    m["coverage"][k] = Value::Array(a);
                }
                let e = m["coverage"]["exhaustive"].as_bool().unwrap_or(false) && v["coverage"]["exhaustive"].as_bool().unwrap_or(false);
                m["coverage"]["exhaustive"] = json!(e);
                m["wall_s"] = json!(m["wall_s"].as_f64().unwrap_or(0.0) + v["wall_s"].as_f64().unwrap_or(0.0));
                m["violations"] = json!(m["violations"].as_i64().unwrap_or(0) + v["violations"].as_i64().unwrap_or(0));
            }
        }
    }
    let m = merged.ok_or("no parts")?;
    let out = verif_root().join("evidence").join(format!("{prop_id}.json"));
    std::fs::write(&out, serde_json::to_string_pretty(&m).unwrap()).map_err(|e| format!("{e}"))?;
    Ok(())
}
