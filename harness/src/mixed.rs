//! Mixed operation sequences (insertions, syntactic insertions, unions, rewrite iterations) over
//! every mirrored language, with a per-language pool of textual rewrite rules, and a generic
//! driver that calls an observer after every operation.

use crate::egx::*;
use crate::hist::*;
use crate::langs::LangId;
use crate::tm::*;
use proptest::prelude::*;
use serde::{Deserialize, Serialize};
use slotted_egraphs::*;

#[derive(Clone, Debug, PartialEq, Eq, Hash, Serialize, Deserialize)]
pub enum MOp {
    Add(Tm),
    AddSyn(Tm),
    Union(usize, usize),
    /// one apply_rewrites call with the given rules (indices into the language's rule pool)
    Rewrite(Vec<usize>),
}

#[derive(Clone, Debug, PartialEq, Eq, Hash, Serialize, Deserialize)]
pub struct Mixed {
    pub lang: LangId,
    pub naming: Naming,
    pub ops: Vec<MOp>,
    /// false: SynExprSubst (default), true: ExtractionSubst
    pub extraction_subst: bool,
    /// 0: rules as written; 1: the slot names inside the rules are renamed ($x -> $rz, $y -> $ry, ...) and interned in the
    /// reverse order first (rules are inputs too: C11); 2 + k: the rule's slots are spelled with names of parameter slots of
    /// classes existing when the rule is built (`build_rule_classnamed`)
    #[serde(default)]
    pub rule_slot_variant: u8,
}

#[derive(Clone, Debug)]
pub struct RuleTxt {
    pub name: &'static str,
    pub lhs: &'static str,
    pub rhs: &'static str,
    /// condition: slot must NOT occur in the class bound to var
    pub not_free: Option<(&'static str, &'static str)>,
    /// right side uses the substitution form
    pub has_subst: bool,
}

const fn r(name: &'static str, lhs: &'static str, rhs: &'static str) -> RuleTxt {
    RuleTxt { name, lhs, rhs, not_free: None, has_subst: false }
}
const fn rs(name: &'static str, lhs: &'static str, rhs: &'static str) -> RuleTxt {
    RuleTxt { name, lhs, rhs, not_free: None, has_subst: true }
}
const fn rc(name: &'static str, lhs: &'static str, rhs: &'static str, s: &'static str, v: &'static str) -> RuleTxt {
    RuleTxt { name, lhs, rhs, not_free: Some((s, v)), has_subst: false }
}

pub fn rule_pool(lang: LangId) -> Vec<RuleTxt> {
    match lang {
        LangId::Core => vec![
            r("p-comm", "(p ?a ?b)", "(p ?b ?a)"),
            r("ww", "(w (w ?a))", "?a"),
            r("f2-sym", "(f2 $x $y)", "(f2 $y $x)"),
            r("g3-rot", "(g3 $x $y $z)", "(g3 $y $z $x)"),
            r("lam-p", "(lam $x (p ?a ?b))", "(p (lam $x ?a) (lam $x ?b))"),
            rs("let-subst", "(let $x ?b ?e)", "?b[(v $x) := ?e]"),
            r("p-c0", "(p ?a c0)", "?a"),
            r("f2-v", "(f2 $x $y)", "(v $x)"),
            r("sum2-swap", "(sum2 ?a $x $y ?b)", "(sum2 ?a $y $x ?b)"),
            rc("lam-unused", "(lam $x ?b)", "?b", "x", "b"),
            r("p-dup", "(p ?a ?a)", "(w ?a)"),
            r("w-intro", "(p ?a ?b)", "(p (w ?a) ?b)"),
            r("g3-swap", "(g3 $x $y $z)", "(g3 $y $x $z)"),
            r("g3-to-f2", "(p (g3 $z $x $y) ?t)", "(p (f2 $y $z) ?t)"),
            r("g3-drop", "(g3 $x $y $z)", "(f2 $x $y)"),
            r("t3-rot", "(t3 ?a ?b ?c)", "(t3 ?c ?a ?b)"),
            r("t3-dup", "(t3 ?a ?b ?a)", "(p ?a ?b)"),
            r("q2-swap", "(q2 $x (q2 $y ?a))", "(q2 $y (q2 $x ?a))"),
            r("q2-drop", "(q2 $x ?a)", "(w ?a)"),
            // left sides that bind two slots and use the first-bound one again later (the slot bijection of a match is
            // extended out of key order), also through nested binders
            r("p-f2-v", "(p (f2 $x $y) (v $x))", "(p (v $y) (f2 $y $x))"),
            r("lam-lam-use", "(lam $x (lam $y (p (v $x) ?a)))", "(lam $y (lam $x (p ?a (v $x))))"),
            r("q2-q2-v", "(q2 $x (q2 $y (v $x)))", "(q2 $y (v $y))"),
            r("g3-v-first", "(p (g3 $x $y $z) (v $x))", "(p (g3 $z $y $x) (v $z))"),
            r("bb-swap", "(bb $x ?a $y ?b)", "(bb $y ?b $x ?a)"),
            // a binder that only the right side has, over a pattern variable (capture avoidance rests on the fresh names the
            // matcher gives to the slots of ?b that the pattern does not mention)
            r("let-abstract", "(p ?a ?b)", "(let $z (p (v $z) ?b) ?a)"),
            r("lam-wrap", "(w ?a)", "(w (p (lam $z ?a) c0))"),
            // an e-node (p L M) over a fully symmetric 6-slot class L and an asymmetric class M over the same slots matches this
            // left side in 720 ways (one per arrangement of L's arguments relative to M's)
            r("g6-p-drop", "(p (g6 $a $b $c $d $e $f) ?x)", "(w ?x)"),
            r("bb-same", "(bb $x ?a $x ?a)", "(lam $x ?a)"),
        ],
        LangId::Lambda => vec![
            rs("beta", "(app (lam $x ?b) ?e)", "?b[(var $x) := ?e]"),
            r("let-intro", "(app (lam $x ?b) ?e)", "(let $x ?b ?e)"),
            rc("let-unused", "(let $x ?b ?e)", "?b", "x", "b"),
            r("let-var-same", "(let $x (var $x) ?e)", "?e"),
            r("let-app", "(let $x (app ?a ?b) ?e)", "(app (let $x ?a ?e) (let $x ?b ?e))"),
            rc("let-lam-diff", "(let $x (lam $y ?b) ?e)", "(lam $y (let $x ?b ?e))", "y", "e"),
            rc("eta", "(lam $x (app ?f (var $x)))", "?f", "x", "f"),
        ],
        LangId::Arith | LangId::Rise => vec![
            rs("beta", "(app (lam $x ?b) ?e)", "?b[(var $x) := ?e]"),
            r("let-intro", "(app (lam $x ?b) ?e)", "(let $x ?b ?e)"),
            rc("let-unused", "(let $x ?b ?e)", "?b", "x", "b"),
            r("let-var-same", "(let $x (var $x) ?e)", "?e"),
            rc("eta", "(lam $x (app ?f (var $x)))", "?f", "x", "f"),
            r("app-swap", "(app (app ?f ?a) ?b)", "(app (app ?f ?b) ?a)"),
        ],
        LangId::Arith2 => vec![
            r("subxx", "(sub ?x ?x)", "zero"),
            r("f-comm", "(f ?a ?b)", "(f ?b ?a)"),
            r("special2", "(f ?x (sub ?x ?x))", "zero"),
            r("sub-intro", "zero", "(sub (var $x) (var $x))"),
        ],
        LangId::Fgh => vec![
            r("fg", "(f $x $y)", "(g $y $x)"),
            r("gh", "(g $x $y)", "(h $x $y)"),
            r("hf", "(h $x $y)", "(f $x $y)"),
        ],
        LangId::VarL => vec![r("f-sym", "(f $x $y)", "(f $y $x)")],
        LangId::Sdql => vec![
            r("sum-swap", "(sum ?r $k $v ?b)", "(sum ?r $v $k ?b)"),
            r("sing-comm", "(sing ?a ?b)", "(sing ?b ?a)"),
            rc("lam-unused", "(lambda $x ?b)", "?b", "x", "b"),
        ],
        LangId::ArrayLang => vec![
            rs("beta", "(app (lam $x ?b) ?e)", "?b[(var $x) := ?e]"),
            r("let-intro", "(app (lam $x ?b) ?e)", "(let $x ?b ?e)"),
            r("let-var-same", "(let $x (var $x) ?e)", "?e"),
            r("app-swap", "(app (app ?f ?a) ?b)", "(app (app ?f ?b) ?a)"),
        ],
        LangId::Pay => vec![r("neg-neg", "(neg (neg ?a))", "?a"), r("tag-drop", "(tag 1 $x ?a)", "?a")],
        LangId::Wide => vec![r("wd-rot", "(wd ?a ?b ?c ?d ?e ?f ?g ?h ?i ?j)", "(wd ?j ?a ?b ?c ?d ?e ?f ?g ?h ?i)"), r("wm-last", "(wm 1 $x ?a ?b ?c ?d ?e ?f ?g $y ?h)", "?a")],
        LangId::Fp => vec![
            r("add-comm", "(add ?a ?b)", "(add ?b ?a)"),
            r("mul-comm", "(mul ?a ?b)", "(mul ?b ?a)"),
            r("add-0", "(add ?a 0)", "?a"),
            r("mul-1", "(mul ?a 1)", "?a"),
            r("neg-neg", "(neg (neg ?a))", "?a"),
            rs("let-subst", "(let $x ?b ?e)", "?b[(var $x) := ?e]"),
        ],
    }
}

/// the rule with its pattern slots renamed: `$name` -> `$r<name>`; the new names are interned in reverse alphabetical order of
/// the old ones, so that their internal order is the reverse of the original one
pub fn build_rule_renamed<L: Language + 'static, N: Analysis<L> + 'static>(rt: &RuleTxt) -> Rewrite<L, N> {
    fn names_in(s: &str) -> Vec<String> {
        let mut out = Vec::new();
        let cs: Vec<char> = s.chars().collect();
        let mut i = 0;
        while i < cs.len() {
            if cs[i] == '$' {
                let mut j = i + 1;
                while j < cs.len() && !cs[j].is_whitespace() && !"()[]".contains(cs[j]) {
                    j += 1;
                }
                let n: String = cs[i + 1..j].iter().collect();
                if !out.contains(&n) {
                    out.push(n);
                }
                i = j;
            } else {
                i += 1;
            }
        }
        out
    }
    let mut names = names_in(rt.lhs);
    for n in names_in(rt.rhs) {
        if !names.contains(&n) {
            names.push(n);
        }
    }
    if let Some((sl, _)) = rt.not_free {
        if !names.contains(&sl.to_string()) {
            names.push(sl.to_string());
        }
    }
    let mut sorted = names.clone();
    sorted.sort();
    for n in sorted.iter().rev() {
        let _ = Slot::named(&format!("r{}", n));
    }
    let ren = |s: &str| -> String {
        let mut out = String::new();
        let cs: Vec<char> = s.chars().collect();
        let mut i = 0;
        while i < cs.len() {
            if cs[i] == '$' {
                out.push_str("$r");
                i += 1;
            } else {
                out.push(cs[i]);
                i += 1;
            }
        }
        out
    };
    let (lhs, rhs) = (ren(rt.lhs), ren(rt.rhs));
    match rt.not_free {
        None => Rewrite::new(rt.name, &lhs, &rhs),
        Some((s, v)) => {
            let slot = Slot::named(&format!("r{}", s));
            let var = v.to_string();
            Rewrite::new_if(rt.name, &lhs, &rhs, move |subst, _| !subst[&*var].slots().contains(&slot))
        }
    }
}

/// maps the given rule slot names injectively to names of parameter slots of classes that exist in `eg` now (varied by `k`);
/// names for which no class slot is left get `r<name>`
pub fn class_slot_renaming<L: Language, N: Analysis<L>>(names: &[String], eg: &EGraph<L, N>, k: usize) -> Vec<(String, String)> {
    let mut avail: Vec<String> = Vec::new();
    for i in eg.ids() {
        for s in eg.slots(i) {
            let n = s.to_string()[1..].to_string();
            if !avail.contains(&n) {
                avail.push(n);
            }
        }
    }
    avail.sort();
    let mut map: Vec<(String, String)> = Vec::new();
    for (i, n) in names.iter().enumerate() {
        let target = if avail.is_empty() { format!("r{}", n) } else { avail.remove((k * 5 + i * 3) % avail.len()) };
        map.push((n.clone(), target));
    }
    map
}

/// rewrites every `$name` of a pattern text through the map
pub fn rename_slots_in(s: &str, map: &[(String, String)]) -> String {
    let mut out = String::new();
    let cs: Vec<char> = s.chars().collect();
    let mut i = 0;
    while i < cs.len() {
        if cs[i] == '$' {
            let mut j = i + 1;
            while j < cs.len() && !cs[j].is_whitespace() && !"()[]".contains(cs[j]) {
                j += 1;
            }
            let n: String = cs[i + 1..j].iter().collect();
            let t = map.iter().find(|(a, _)| *a == n).map(|(_, b)| b.clone()).unwrap_or(n);
            out.push('$');
            out.push_str(&t);
            i = j;
        } else {
            out.push(cs[i]);
            i += 1;
        }
    }
    out
}

pub fn slot_names_in(s: &str) -> Vec<String> {
    let mut out = Vec::new();
    let cs: Vec<char> = s.chars().collect();
    let mut i = 0;
    while i < cs.len() {
        if cs[i] == '$' {
            let mut j = i + 1;
            while j < cs.len() && !cs[j].is_whitespace() && !"()[]".contains(cs[j]) {
                j += 1;
            }
            let n: String = cs[i + 1..j].iter().collect();
            if !out.contains(&n) {
                out.push(n);
            }
            i = j;
        } else {
            i += 1;
        }
    }
    out
}

/// the rule with its pattern slots spelled with the names of parameter slots of classes that exist in the e-graph right now
/// (`$f<n>`: the user may write such names; they denote the very slots the library invented).  Naming an existing slot does
/// not move the fresh counter, so the run differs from the original one only in the names of the rule's slots.  `k` varies
/// which class slots are taken.  Rule slots for which no class slot is left keep a textual name.
pub fn build_rule_classnamed<L: Language + 'static, N: Analysis<L> + 'static>(rt: &RuleTxt, eg: &EGraph<L, N>, k: usize) -> Rewrite<L, N> {
    let mut names = slot_names_in(rt.lhs);
    for n in slot_names_in(rt.rhs) {
        if !names.contains(&n) {
            names.push(n);
        }
    }
    if let Some((sl, _)) = rt.not_free {
        if !names.contains(&sl.to_string()) {
            names.push(sl.to_string());
        }
    }
    let map = class_slot_renaming(&names, eg, k);
    let ren = |s: &str| rename_slots_in(s, &map);
    let (lhs, rhs) = (ren(rt.lhs), ren(rt.rhs));
    match rt.not_free {
        None => Rewrite::new(rt.name, &lhs, &rhs),
        Some((s, v)) => {
            let t = map.iter().find(|(a, _)| a == s).map(|(_, b)| b.clone()).unwrap_or(s.to_string());
            let slot = Slot::named(&t);
            let var = v.to_string();
            Rewrite::new_if(rt.name, &lhs, &rhs, move |subst, _| !subst[&*var].slots().contains(&slot))
        }
    }
}

pub fn build_rule<L: Language + 'static, N: Analysis<L> + 'static>(rt: &RuleTxt) -> Rewrite<L, N> {
    match rt.not_free {
        None => Rewrite::new(rt.name, rt.lhs, rt.rhs),
        Some((s, v)) => {
            let slot = Slot::named(s);
            let var = v.to_string();
            Rewrite::new_if(rt.name, rt.lhs, rt.rhs, move |subst, _| !subst[&*var].slots().contains(&slot))
        }
    }
}

impl Mixed {
    pub fn render(&self) -> String {
        let pool = rule_pool(self.lang);
        let mut out = format!("[{:?}{}] ", self.lang, if self.extraction_subst { ",ExtractionSubst" } else { "" });
        let mut k = 0;
        for o in &self.ops {
            match o {
                MOp::Add(t) => {
                    out.push_str(&format!("t{}=add {}; ", k, t.render(&self.naming)));
                    k += 1;
                }
                MOp::AddSyn(t) => {
                    out.push_str(&format!("t{}=add_syn {}; ", k, t.render(&self.naming)));
                    k += 1;
                }
                MOp::Union(i, j) => out.push_str(&format!("union t{} t{}; ", i, j)),
                MOp::Rewrite(rs) => out.push_str(&format!(
                    "rewrite[{}]; ",
                    rs.iter().map(|i| pool[*i % pool.len()].name).collect::<Vec<_>>().join(",")
                )),
            }
        }
        out
    }

    pub fn terms(&self) -> Vec<Tm> {
        self.ops
            .iter()
            .filter_map(|o| match o {
                MOp::Add(t) | MOp::AddSyn(t) => Some(t.clone()),
                _ => None,
            })
            .collect()
    }

    pub fn n_rewrites(&self) -> usize {
        self.ops.iter().filter(|o| matches!(o, MOp::Rewrite(_))).count()
    }

    pub fn uses_subst_rule(&self) -> bool {
        let pool = rule_pool(self.lang);
        self.ops.iter().any(|o| matches!(o, MOp::Rewrite(rs) if rs.iter().any(|i| pool[*i % pool.len()].has_subst)))
    }
}

#[derive(Clone, Debug)]
pub struct MixedCfg {
    pub hist: HistCfg,
    pub max_ops: usize,
    /// probability (in 1/16) that a chunk is a rewrite op
    pub rewrite_p: usize,
    pub addsyn_p: usize,
    pub allow_extraction_subst: bool,
    /// max rules per rewrite op
    pub max_rules: usize,
    /// exclude rules whose right side uses the substitution form
    pub no_subst_rules: bool,
}

impl MixedCfg {
    pub fn for_lang(lang: LangId) -> MixedCfg {
        MixedCfg {
            hist: HistCfg::for_lang(lang),
            max_ops: 8,
            rewrite_p: 3,
            addsyn_p: 3,
            allow_extraction_subst: true,
            max_rules: 3,
            no_subst_rules: false,
        }
    }
}

pub fn decode_mixed(cfg: &MixedCfg, chunks: &[Vec<u16>], extra: u16) -> Mixed {
    let pool = rule_pool(cfg.hist.lang);
    let mut ops: Vec<MOp> = Vec::new();
    let mut terms: Vec<Tm> = Vec::new();
    for ch in chunks.iter().take(cfg.max_ops) {
        // the last choice of the chunk decides rewrite vs history op (kept at the end so the history decoding is unchanged)
        let sel = ch.last().copied().unwrap_or(0) as usize;
        let is_rw = (sel * 16) >> 16 < cfg.rewrite_p && !pool.is_empty();
        if is_rw {
            let mut src = Src::new(ch);
            let k = 1 + src.pick(cfg.max_rules);
            let mut rules = Vec::new();
            for _ in 0..k {
                let i = src.pick(pool.len());
                if cfg.no_subst_rules && pool[i].has_subst {
                    continue;
                }
                if !rules.contains(&i) {
                    rules.push(i);
                }
            }
            if !rules.is_empty() {
                ops.push(MOp::Rewrite(rules));
            }
            continue;
        }
        let mut hc = cfg.hist.clone();
        hc.max_ops = 1;
        let h = decode_hist_from(&hc, std::slice::from_ref(ch), 0, &terms);
        let syn = ((ch.first().copied().unwrap_or(0) as usize >> 3) % 16) < cfg.addsyn_p;
        for o in h.ops {
            match o {
                HOp::Add(t) => {
                    terms.push(t.clone());
                    ops.push(if syn { MOp::AddSyn(t) } else { MOp::Add(t) });
                }
                HOp::Union(i, j) => ops.push(MOp::Union(i, j)),
            }
        }
    }
    let naming = cfg.hist.namings[(extra as usize & 0xff) * cfg.hist.namings.len() >> 8].clone();
    Mixed {
        lang: cfg.hist.lang,
        naming,
        ops,
        extraction_subst: cfg.allow_extraction_subst && (extra >> 8) & 1 == 1,
        rule_slot_variant: 0,
    }
}

pub fn mixed_strategy(cfg: MixedCfg) -> BoxedStrategy<Mixed> {
    let max_ops = cfg.max_ops;
    (
        proptest::collection::vec(proptest::collection::vec(any::<u16>(), 0..40), 1..=max_ops),
        any::<u16>(),
    )
        .prop_map(move |(chunks, e)| decode_mixed(&cfg, &chunks, e))
        .boxed()
}

/// Generic driver state visible to observers.
pub struct MState {
    pub handles: Vec<AppliedId>,
    pub terms: Vec<Tm>,
    pub effective_unions: usize,
    pub rewrites_changed: usize,
    /// rewrite steps not executed because the e-graph already had more than REWRITE_NODE_CAP e-nodes
    pub rewrites_skipped: usize,
    pub step: usize,
}

/// Bound on generated size: a rewrite step of a generated history is only executed while the e-graph has at most this
/// many e-nodes (rule sets like beta / let-distribution multiply the size with every step; a handful of steps on a
/// large e-graph runs for minutes).  Part of the case's meaning, the same in every run of the case.
pub const REWRITE_NODE_CAP: usize = 600;

pub fn new_egraph<L: Language + 'static, N: Analysis<L> + 'static>(n: N, extraction_subst: bool) -> EGraph<L, N> {
    if extraction_subst {
        EGraph::with_subst_method::<ExtractionSubst>(n)
    } else {
        EGraph::new(n)
    }
}

/// Runs the case; `after` is called after every operation and may return Err to fail the case.
pub fn drive<L: Language + 'static, N: Analysis<L> + 'static>(
    case: &Mixed,
    eg: &mut EGraph<L, N>,
    after: &mut dyn FnMut(&mut EGraph<L, N>, &MState, &MOp) -> Result<(), String>,
) -> Result<MState, String> {
    let pool = rule_pool(case.lang);
    let mut st = MState { handles: Vec::new(), terms: Vec::new(), effective_unions: 0, rewrites_changed: 0, rewrites_skipped: 0, step: 0 };
    for (step, op) in case.ops.iter().enumerate() {
        st.step = step;
        match op {
            MOp::Add(t) => {
                let a = eg.add_expr(parse_tm::<L>(t, &case.naming));
                st.handles.push(a);
                st.terms.push(t.clone());
            }
            MOp::AddSyn(t) => {
                let a = eg.add_syn_expr(parse_tm::<L>(t, &case.naming));
                st.handles.push(a);
                st.terms.push(t.clone());
            }
            MOp::Union(i, j) => {
                if *i < st.handles.len() && *j < st.handles.len() {
                    let (a, b) = (st.handles[*i].clone(), st.handles[*j].clone());
                    if eg.union_justified(&a, &b, Some(format!("u{}_{}", i, j))) {
                        st.effective_unions += 1;
                    }
                }
            }
            MOp::Rewrite(_) if eg.total_number_of_nodes() > REWRITE_NODE_CAP => {
                st.rewrites_skipped += 1;
            }
            MOp::Rewrite(rs) => {
                let rules: Vec<Rewrite<L, N>> = rs
                    .iter()
                    .map(|i| match case.rule_slot_variant {
                        0 => build_rule::<L, N>(&pool[*i % pool.len()]),
                        1 => build_rule_renamed::<L, N>(&pool[*i % pool.len()]),
                        k => build_rule_classnamed::<L, N>(&pool[*i % pool.len()], eg, k as usize - 2),
                    })
                    .collect();
                if apply_rewrites(eg, &rules) {
                    st.rewrites_changed += 1;
                }
            }
        }
        after(eg, &st, op)?;
    }
    Ok(st)
}

impl Mixed {
    /// "add (f2 $a $b); addsyn (v $a); union 0 1; rewrite f2-sym,p-comm"
    pub fn from_script(lang: LangId, script: &str, extraction_subst: bool) -> Result<Mixed, String> {
        let sig = lang.sig();
        let pool = rule_pool(lang);
        let mut ops = Vec::new();
        for cmd in script.split(';') {
            let cmd = cmd.trim();
            if cmd.is_empty() {
                continue;
            }
            let (op, rest) = cmd.split_once(' ').unwrap_or((cmd, ""));
            match op {
                "add" => ops.push(MOp::Add(parse_tm_text(&sig, rest)?)),
                "addsyn" => ops.push(MOp::AddSyn(parse_tm_text(&sig, rest)?)),
                "union" => {
                    let v: Vec<usize> = rest.split_whitespace().filter_map(|x| x.parse().ok()).collect();
                    if v.len() != 2 {
                        return Err(format!("bad union: {cmd}"));
                    }
                    ops.push(MOp::Union(v[0], v[1]));
                }
                "rewrite" => {
                    let mut rs = Vec::new();
                    for n in rest.split(',') {
                        let n = n.trim();
                        rs.push(pool.iter().position(|r| r.name == n).ok_or(format!("unknown rule {n}"))?);
                    }
                    ops.push(MOp::Rewrite(rs));
                }
                _ => return Err(format!("unknown command {op}")),
            }
        }
        Ok(Mixed { lang, naming: Naming::Alpha, ops, extraction_subst, rule_slot_variant: 0 })
    }
}
