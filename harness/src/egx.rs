//! Helpers on the real e-graph side: turning model terms into RecExprs, slots, lookups.

use crate::tm::{Name, Naming, Tm};
use slotted_egraphs::*;
use std::collections::BTreeMap;

pub fn slot_of(n: Name, nm: &Naming) -> Slot {
    let s = nm.slot(n);
    Slot::named(&s[1..])
}

pub fn parse_tm<L: Language>(t: &Tm, nm: &Naming) -> RecExpr<L> {
    let txt = t.render(nm);
    match RecExpr::<L>::parse(&txt) {
        Ok(r) => r,
        Err(e) => panic!("harness: model term does not parse: {txt}: {e:?}"),
    }
}

pub fn lookup_tm<L: Language, N: Analysis<L>>(eg: &EGraph<L, N>, t: &Tm, nm: &Naming) -> Option<AppliedId> {
    lookup_rec_expr(&parse_tm::<L>(t, nm), eg)
}

/// map from Slot back to model names, for the given set of names
pub fn slot_names(names: impl IntoIterator<Item = Name>, nm: &Naming) -> BTreeMap<Slot, Name> {
    names.into_iter().map(|n| (slot_of(n, nm), n)).collect()
}

/// the slotmap that renames a's argument values by a permutation of model names
pub fn perm_slotmap(sigma: &BTreeMap<Name, Name>, nm: &Naming) -> SlotMap {
    sigma.iter().map(|(a, b)| (slot_of(*a, nm), slot_of(*b, nm))).collect()
}

/// number of symmetries of the class behind `a` as observable through eq: #{sigma : eq(a, a.sigma)}
pub fn observed_symmetries<L: Language, N: Analysis<L>>(eg: &EGraph<L, N>, a: &AppliedId) -> usize {
    let slots: Vec<Slot> = a.slots().iter().copied().collect();
    let mut count = 0;
    for p in perms(&slots) {
        let m: SlotMap = slots.iter().copied().zip(p.iter().copied()).collect();
        if eg.eq(a, &a.apply_slotmap(&m)) {
            count += 1;
        }
    }
    count
}

pub fn perms<T: Clone + PartialEq>(v: &[T]) -> Vec<Vec<T>> {
    fn go<T: Clone + PartialEq>(v: &[T], cur: &mut Vec<T>, out: &mut Vec<Vec<T>>) {
        if cur.len() == v.len() {
            out.push(cur.clone());
            return;
        }
        for x in v {
            if !cur.contains(x) {
                cur.push(x.clone());
                go(v, cur, out);
                cur.pop();
            }
        }
    }
    let mut out = Vec::new();
    go(v, &mut Vec::new(), &mut out);
    out
}
