//! Analyses used by several properties.
use slotted_egraphs::*;

/// smallest term size of a class (least fixpoint; merge = min)
#[derive(Default, Clone, Copy)]
pub struct MinSize;

impl<L: Language> Analysis<L> for MinSize {
    type Data = u64;
    fn make(eg: &EGraph<L, Self>, enode: &L) -> u64 {
        let mut s = 1u64;
        for x in enode.applied_id_occurrences() {
            s = s.saturating_add(*eg.analysis_data(x.id));
        }
        s
    }
    fn merge(l: u64, r: u64) -> u64 {
        l.min(r)
    }
}

/// smallest term depth of a class (independent of free slots)
#[derive(Default, Clone, Copy)]
pub struct MinDepth;

impl<L: Language> Analysis<L> for MinDepth {
    type Data = u64;
    fn make(eg: &EGraph<L, Self>, enode: &L) -> u64 {
        let mut d = 0u64;
        for x in enode.applied_id_occurrences() {
            d = d.max(*eg.analysis_data(x.id));
        }
        d.saturating_add(1)
    }
    fn merge(l: u64, r: u64) -> u64 {
        l.min(r)
    }
}
