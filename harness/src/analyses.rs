//! Analyses used by several properties.
use slotted_egraphs::*;

/// smallest term size of a class (least fixpoint; merge = min)
#[derive(Default, Clone, Copy)]
pub struct MinSize;

impl<L: Language> Analysis<L> for MinSize {
    type Data = u64;
    fn make(eg: &EGraph<L, Self>, enode: &L) -> u64 {
        let mut s = 1u64;
        for x in enode.applied_id_occurrences() {
            s = s.saturating_add(*eg.analysis_data(x.id));
        }
        s
    }
    fn merge(l: u64, r: u64) -> u64 {
        l.min(r)
    }
}

/// smallest term depth of a class (independent of free slots)
#[derive(Default, Clone, Copy)]
pub struct MinDepth;

impl<L: Language> Analysis<L> for MinDepth {
    type Data = u64;
    fn make(eg: &EGraph<L, Self>, enode: &L) -> u64 {
        let mut d = 0u64;
        for x in enode.applied_id_occurrences() {
            d = d.max(*eg.analysis_data(x.id));
        }
        d.saturating_add(1)
    }
    fn merge(l: u64, r: u64) -> u64 {
        l.min(r)
    }
}

/// an analysis whose `modify` hook asserts equations itself: w(w(x)) = x and (p x c0) = c0 over the Core language.  The hook unions the class it
/// is called on - possibly the class an insertion is creating at that moment - with an older class that has slots.
#[derive(Default, Clone, Copy)]
pub struct WrapElim;

impl Analysis<crate::langs::Core> for WrapElim {
    type Data = ();
    fn make(_eg: &EGraph<crate::langs::Core, Self>, _enode: &crate::langs::Core) {}
    fn merge(_l: (), _r: ()) {}
    fn modify(eg: &mut EGraph<crate::langs::Core, Self>, id: Id) {
        use crate::langs::Core;
        let mut inner: Vec<AppliedId> = Vec::new();
        for n in eg.enodes(id) {
            if let Core::W(c) = &n {
                for m in eg.enodes_applied(c) {
                    if let Core::W(g) = &m {
                        inner.push(g.clone());
                    }
                }
            }
        }
        // and (p x c0) = c0: the class of a term with slots is united with a class that has none
        for n in eg.enodes(id) {
            if let Core::P(_, b) = &n {
                if eg.enodes_applied(b).iter().any(|m| matches!(m, Core::C0())) {
                    inner.push(b.clone());
                }
            }
        }
        if inner.is_empty() {
            return;
        }
        let me = eg.mk_identity_applied_id(id);
        for g in inner {
            eg.union(&me, &g);
        }
    }
}
