//! Engine: drives proptest strategies (generation + shrinking) and exhaustive enumerators over
//! property "stages", runs every case in a fresh OS thread (the library's slot table is
//! thread-local), captures panics, collects evidence, writes replay files.
//!
//! A run is a pure function of (code under test, VERIF_SEED, tier): work is split over a fixed
//! number of shards, each with its own deterministic RNG; no clock / RNG / hash-map order of the
//! harness's own is consulted inside a property.

use proptest::strategy::{BoxedStrategy, Strategy, ValueTree};
use proptest::test_runner::{Config, RngAlgorithm, TestRng, TestRunner};
use serde::de::DeserializeOwned;
use serde::Serialize;
use std::cell::RefCell;
use std::collections::{BTreeMap, BTreeSet};
use std::fmt::Debug;
use std::sync::atomic::{AtomicBool, Ordering};
use std::sync::mpsc;
use std::sync::Arc;
use std::time::{Duration, Instant};

pub const SHARDS: usize = 16;

static THOROUGH: AtomicBool = AtomicBool::new(false);

/// set by the check driver; lets a run function spend extra work in the thorough tier
pub fn set_thorough(b: bool) {
    THOROUGH.store(b, Ordering::SeqCst);
}
pub fn is_thorough() -> bool {
    THOROUGH.load(Ordering::SeqCst)
}

#[derive(Clone, Copy, PartialEq, Eq, Debug)]
pub enum Tier {
    Quick,
    Thorough,
}

impl Tier {
    pub fn name(self) -> &'static str {
        match self {
            Tier::Quick => "quick",
            Tier::Thorough => "thorough",
        }
    }
    /// pick by tier
    pub fn pick<T>(self, q: T, t: T) -> T {
        match self {
            Tier::Quick => q,
            Tier::Thorough => t,
        }
    }
}

/// Observations a property's run function reports about one case.
#[derive(Default, Debug, Clone)]
pub struct Obs {
    pub labels: BTreeSet<&'static str>,
    pub nontrivial: bool,
    /// the case was routed around an open known finding (id) and not judged
    pub skip: Option<String>,
    /// number of individual oracle comparisons made in this case
    pub comparisons: u64,
    /// extra counters
    pub counters: BTreeMap<&'static str, u64>,
}

impl Obs {
    pub fn label(&mut self, l: &'static str) {
        self.labels.insert(l);
    }
    pub fn count(&mut self, k: &'static str, n: u64) {
        *self.counters.entry(k).or_insert(0) += n;
    }
    pub fn cmp(&mut self, n: u64) {
        self.comparisons += n;
    }
}

pub type RunFn<C> = fn(&C, &mut Obs) -> Result<(), String>;

static ISOLATE: AtomicBool = AtomicBool::new(false);

/// isolate mode: every case is executed in a child process (`sev exec-case`), so that a crash of the process
/// (stack overflow, abort) is attributed to the case that caused it instead of killing the whole check
pub fn set_isolate(b: bool) {
    ISOLATE.store(b, Ordering::SeqCst);
}
pub fn is_isolate() -> bool {
    ISOLATE.load(Ordering::SeqCst)
}

fn leak(s: &str) -> &'static str {
    Box::leak(s.to_string().into_boxed_str())
}

pub fn outcome_to_json(o: &CaseOutcome) -> serde_json::Value {
    let obs_json = |obs: &Obs| {
        serde_json::json!({
            "labels": obs.labels.iter().collect::<Vec<_>>(),
            "nontrivial": obs.nontrivial,
            "skip": obs.skip,
            "comparisons": obs.comparisons,
            "counters": obs.counters,
        })
    };
    match o {
        CaseOutcome::Pass(obs) => serde_json::json!({"kind": "pass", "obs": obs_json(obs)}),
        CaseOutcome::Fail(m, obs) => serde_json::json!({"kind": "fail", "msg": m, "obs": obs_json(obs)}),
        CaseOutcome::Panic(m, obs) => serde_json::json!({"kind": "panic", "msg": m, "obs": obs_json(obs)}),
        CaseOutcome::Timeout => serde_json::json!({"kind": "timeout"}),
    }
}

pub fn outcome_from_json(v: &serde_json::Value) -> CaseOutcome {
    let mut obs = Obs::default();
    if let Some(o) = v.get("obs") {
        for l in o["labels"].as_array().cloned().unwrap_or_default() {
            if let Some(s) = l.as_str() {
                obs.labels.insert(leak(s));
            }
        }
        obs.nontrivial = o["nontrivial"].as_bool().unwrap_or(false);
        obs.skip = o["skip"].as_str().map(|s| s.to_string());
        obs.comparisons = o["comparisons"].as_u64().unwrap_or(0);
        if let Some(m) = o["counters"].as_object() {
            for (k, n) in m {
                obs.counters.insert(leak(k), n.as_u64().unwrap_or(0));
            }
        }
    }
    let msg = v["msg"].as_str().unwrap_or("").to_string();
    match v["kind"].as_str() {
        Some("pass") => CaseOutcome::Pass(obs),
        Some("fail") => CaseOutcome::Fail(msg, obs),
        Some("panic") => CaseOutcome::Panic(msg, obs),
        _ => CaseOutcome::Timeout,
    }
}

/// executes the case in a child process; a child that dies (signal, abort) counts as a panic of the case
pub fn exec_case_isolated(prop: &str, stage: &str, case: &serde_json::Value, timeout_s: u64) -> CaseOutcome {
    use std::io::Write;
    let exe = match std::env::current_exe() {
        Ok(e) => e,
        Err(_) => return CaseOutcome::Timeout,
    };
    let input = serde_json::json!({"property": prop, "stage": stage, "case": case}).to_string();
    let child = std::process::Command::new(exe)
        .arg("exec-case")
        .stdin(std::process::Stdio::piped())
        .stdout(std::process::Stdio::piped())
        .stderr(std::process::Stdio::piped())
        .spawn();
    let Ok(mut child) = child else { return CaseOutcome::Timeout };
    let _ = child.stdin.take().unwrap().write_all(input.as_bytes());
    // watchdog: poll, kill the child after the limit
    let start = Instant::now();
    let mut deadline = start + Duration::from_secs(timeout_s.max(1));
    loop {
        match child.try_wait() {
            Ok(Some(_)) => break,
            Ok(None) => {
                if Instant::now() > deadline && start + stretched_limit(timeout_s) > Instant::now() {
                    deadline = start + stretched_limit(timeout_s);
                }
                if Instant::now() > deadline {
                    let _ = child.kill();
                    let _ = child.wait();
                    return CaseOutcome::Timeout;
                }
                std::thread::sleep(Duration::from_millis(5));
            }
            Err(_) => break,
        }
    }
    match child.wait_with_output() {
        Ok(o) => {
            if let Ok(v) = serde_json::from_slice::<serde_json::Value>(&o.stdout) {
                if v.get("kind").is_some() {
                    return outcome_from_json(&v);
                }
            }
            let err = String::from_utf8_lossy(&o.stderr);
            let what = err.lines().find(|l| l.contains("overflowed its stack") || l.contains("fatal runtime error") || l.contains("panicked")).unwrap_or("").to_string();
            CaseOutcome::Panic(format!("panic: the process executing the case died ({:?}) {}", o.status, what), Obs::default())
        }
        Err(e) => CaseOutcome::Panic(format!("panic: could not wait for the child process: {e}"), Obs::default()),
    }
}

pub enum Source<C> {
    /// proptest strategy, number of cases (total over all shards)
    Random(Arc<dyn Fn() -> BoxedStrategy<C> + Send + Sync>, u32),
    /// enumerator of a finite space; shard i takes items with index % SHARDS == i
    Enumerate(Arc<dyn Fn() -> Box<dyn Iterator<Item = C>> + Send + Sync>),
    /// a fixed list of cases (regression corpus)
    Fixed(Vec<C>),
}

pub struct Stage<C> {
    pub name: &'static str,
    pub source: Source<C>,
    pub run: RunFn<C>,
    /// a panic escaping from `run` is a violation of this property (otherwise: counted as aborted)
    pub panic_is_violation: bool,
    pub render: fn(&C) -> String,
    /// what makes a case non-trivial (for the evidence file)
    pub rule: &'static str,
    /// per-case wall limit in seconds (trip => inconclusive, exit 2)
    pub case_timeout_s: u64,
    /// exhaustive: set true when Source::Enumerate covers its finite space completely
    pub exhaustive: bool,
}

#[derive(Debug, Clone)]
pub struct Failure {
    pub stage: String,
    pub message: String,
    pub case_json: serde_json::Value,
    pub rendered: String,
    pub shard: usize,
}

#[derive(Default, Debug, Clone)]
pub struct StageStats {
    pub stage: String,
    pub evaluations: u64,
    pub comparisons: u64,
    pub nontrivial_hashes: BTreeSet<u64>,
    pub labels: BTreeMap<String, u64>,
    pub counters: BTreeMap<String, u64>,
    pub aborted_by_panic: u64,
    pub abort_samples: Vec<String>,
    pub excluded_known: BTreeMap<String, u64>,
    pub samples: Vec<String>,
    pub failure: Option<Failure>,
    pub timed_out: Option<String>,
    pub exhaustive: bool,
    pub rule: String,
    pub shrink_runs: u64,
    pub slow_cases: Vec<String>,
    pub inconclusive: Vec<String>,
}

impl StageStats {
    fn merge(&mut self, o: StageStats) {
        self.evaluations += o.evaluations;
        self.comparisons += o.comparisons;
        self.nontrivial_hashes.extend(o.nontrivial_hashes);
        for (k, v) in o.labels {
            *self.labels.entry(k).or_insert(0) += v;
        }
        for (k, v) in o.counters {
            *self.counters.entry(k).or_insert(0) += v;
        }
        self.aborted_by_panic += o.aborted_by_panic;
        for s in o.abort_samples {
            if self.abort_samples.len() < 5 {
                self.abort_samples.push(s);
            }
        }
        for (k, v) in o.excluded_known {
            *self.excluded_known.entry(k).or_insert(0) += v;
        }
        for s in o.samples {
            if self.samples.len() < 8 {
                self.samples.push(s);
            }
        }
        self.shrink_runs += o.shrink_runs;
        for s in o.inconclusive {
            if self.inconclusive.len() < 5 {
                self.inconclusive.push(s);
            }
        }
        for s in o.slow_cases {
            if self.slow_cases.len() < 5 {
                self.slow_cases.push(s);
            }
        }
        if self.failure.is_none() {
            self.failure = o.failure;
        }
        if self.timed_out.is_none() {
            self.timed_out = o.timed_out;
        }
    }
}

thread_local! {
    static LAST_PANIC: RefCell<Option<String>> = RefCell::new(None);
}

/// Installs a silent panic hook that records message and location per thread.
pub fn install_panic_hook() {
    std::panic::set_hook(Box::new(|info| {
        let msg = if let Some(s) = info.payload().downcast_ref::<&str>() {
            s.to_string()
        } else if let Some(s) = info.payload().downcast_ref::<String>() {
            s.clone()
        } else {
            "<non-string panic>".to_string()
        };
        let loc = info
            .location()
            .map(|l| format!("{}:{}", l.file(), l.line()))
            .unwrap_or_default();
        LAST_PANIC.with(|p| *p.borrow_mut() = Some(format!("panic: {} @ {}", msg, loc)));
    }));
}

pub enum CaseOutcome {
    Pass(Obs),
    Fail(String, Obs),
    Panic(String, Obs),
    Timeout,
}

/// Run `f` on `case` in a fresh thread, capturing panics.
/// The per-case limit is a limit on work, not on wall-clock time: on a machine whose run queue is longer than its
/// number of cores a case gets only a fraction of a core, so the allowed wall-clock time is stretched by the 1-minute
/// load average per core (at most 8x).  Evaluated when the plain limit expires.
/// message of the last panic caught on this thread (for run functions that tolerate a specific, announced panic)
pub fn take_last_panic() -> Option<String> {
    LAST_PANIC.with(|p| p.borrow_mut().take())
}

pub fn stretched_limit(timeout_s: u64) -> Duration {
    let ncpu = std::thread::available_parallelism().map(|n| n.get()).unwrap_or(1) as f64;
    let load = std::fs::read_to_string("/proc/loadavg").ok().and_then(|s| s.split_whitespace().next().and_then(|x| x.parse::<f64>().ok())).unwrap_or(0.0);
    let factor = (1.5 * load / ncpu).clamp(1.0, 8.0);
    Duration::from_millis((timeout_s.max(1) as f64 * 1000.0 * factor) as u64)
}

pub fn exec_case<C: Clone + Send + 'static>(case: &C, run: RunFn<C>, timeout_s: u64) -> CaseOutcome {
    let c = case.clone();
    let (tx, rx) = mpsc::channel();
    let builder = std::thread::Builder::new().stack_size(48 << 20);
    let handle = builder
        .spawn(move || {
            let mut obs = Obs::default();
            let r = std::panic::catch_unwind(std::panic::AssertUnwindSafe(|| run(&c, &mut obs)));
            let out = match r {
                Ok(Ok(())) => CaseOutcome::Pass(obs),
                Ok(Err(m)) => CaseOutcome::Fail(m, obs),
                Err(_) => {
                    let m = LAST_PANIC
                        .with(|p| p.borrow_mut().take())
                        .unwrap_or_else(|| "panic: <unknown>".into());
                    CaseOutcome::Panic(m, obs)
                }
            };
            let _ = tx.send(out);
        })
        .expect("spawn");
    let start = Instant::now();
    let mut wait = Duration::from_secs(timeout_s);
    loop {
        match rx.recv_timeout(wait) {
            Ok(o) => {
                let _ = handle.join();
                return o;
            }
            Err(_) => {
                let allowed = stretched_limit(timeout_s);
                let el = start.elapsed();
                if el >= allowed {
                    return CaseOutcome::Timeout;
                }
                wait = allowed - el;
            }
        }
    }
}

fn hash_str(s: &str) -> u64 {
    // FNV-1a, fixed
    let mut h: u64 = 0xcbf29ce484222325;
    for b in s.as_bytes() {
        h ^= *b as u64;
        h = h.wrapping_mul(0x100000001b3);
    }
    h
}

pub fn seed_bytes(seed: u64, prop: &str, stage: &str, shard: usize) -> [u8; 32] {
    let mut out = [0u8; 32];
    let a = hash_str(&format!("{}|{}|{}|{}|a", seed, prop, stage, shard));
    let b = hash_str(&format!("{}|{}|{}|{}|b", seed, prop, stage, shard));
    let c = hash_str(&format!("{}|{}|{}|{}|c", seed, prop, stage, shard));
    let d = hash_str(&format!("{}|{}|{}|{}|d", seed, prop, stage, shard));
    out[0..8].copy_from_slice(&a.to_le_bytes());
    out[8..16].copy_from_slice(&b.to_le_bytes());
    out[16..24].copy_from_slice(&c.to_le_bytes());
    out[24..32].copy_from_slice(&d.to_le_bytes());
    out
}

struct ShardCtx<'a, C> {
    prop: &'a str,
    stage: &'a Stage<C>,
    stats: StageStats,
    stop: &'a AtomicBool,
    shard: usize,
}

impl<'a, C: Clone + Send + Debug + Serialize + 'static> ShardCtx<'a, C> {
    /// returns Some(message) if the case fails (violation)
    fn eval(&mut self, case: &C, counting: bool) -> Option<String> {
        let t0 = Instant::now();
        if std::env::var("VERIF_TRACE").is_ok() {
            eprintln!("TRACE[{}] {}", self.shard, (self.stage.render)(case));
            let v = serde_json::json!({"property": std::env::var("VERIF_TRACE").unwrap_or_default(), "stage": self.stage.name, "config": "any", "case": case});
            let _ = std::fs::create_dir_all("/tmp/sev-trace");
            let _ = std::fs::write(format!("/tmp/sev-trace/{}.json", self.shard), serde_json::to_string(&v).unwrap());
        }
        let out = if is_isolate() {
            exec_case_isolated(self.prop, self.stage.name, &serde_json::to_value(case).unwrap_or(serde_json::Value::Null), self.stage.case_timeout_s)
        } else {
            exec_case(case, self.stage.run, self.stage.case_timeout_s)
        };
        let dt = t0.elapsed().as_secs_f64();
        if dt > 10.0 && self.stats.slow_cases.len() < 3 {
            self.stats.slow_cases.push(format!("{:.0}s: {}", dt, (self.stage.render)(case)));
        }
        match out {
            CaseOutcome::Pass(obs) => {
                if counting {
                    self.account(case, &obs);
                }
                None
            }
            CaseOutcome::Fail(m, obs) => {
                if counting {
                    self.account(case, &obs);
                }
                if m.starts_with("INCONCLUSIVE:") {
                    // a self-check of the harness failed: never a violation
                    if self.stats.inconclusive.len() < 3 {
                        self.stats.inconclusive.push(format!("{} :: {}", m, (self.stage.render)(case)));
                    }
                    return None;
                }
                Some(m)
            }
            CaseOutcome::Panic(m, obs) => {
                if self.stage.panic_is_violation {
                    if counting {
                        self.account(case, &obs);
                    }
                    Some(m)
                } else {
                    if counting {
                        self.stats.evaluations += 1;
                        self.stats.aborted_by_panic += 1;
                        if self.stats.abort_samples.len() < 3 {
                            self.stats
                                .abort_samples
                                .push(format!("{} :: {}", m, (self.stage.render)(case)));
                        }
                    }
                    None
                }
            }
            CaseOutcome::Timeout => {
                self.stats.timed_out = Some((self.stage.render)(case));
                self.stop.store(true, Ordering::SeqCst);
                None
            }
        }
    }

    fn account(&mut self, case: &C, obs: &Obs) {
        self.stats.evaluations += 1;
        self.stats.comparisons += obs.comparisons;
        if let Some(k) = &obs.skip {
            *self.stats.excluded_known.entry(k.clone()).or_insert(0) += 1;
            return;
        }
        for l in &obs.labels {
            *self.stats.labels.entry(l.to_string()).or_insert(0) += 1;
        }
        for (k, v) in &obs.counters {
            *self.stats.counters.entry(k.to_string()).or_insert(0) += v;
        }
        if obs.nontrivial {
            let r = (self.stage.render)(case);
            let h = hash_str(&r);
            if self.stats.nontrivial_hashes.insert(h) && self.stats.samples.len() < 2 {
                self.stats.samples.push(r);
            }
        }
    }

    fn fail(&mut self, case: &C, msg: String) {
        self.stats.failure = Some(Failure {
            stage: self.stage.name.to_string(),
            message: msg,
            case_json: serde_json::to_value(case).unwrap_or(serde_json::Value::Null),
            rendered: (self.stage.render)(case),
            shard: self.shard,
        });
        self.stop.store(true, Ordering::SeqCst);
    }
}

fn run_shard<C: Clone + Send + Debug + Serialize + 'static>(
    prop: &str,
    stage: &Stage<C>,
    seed: u64,
    shard: usize,
    stop: &AtomicBool,
    max_shrink: u32,
    scale: u32,
) -> StageStats {
    let mut ctx = ShardCtx {
        prop,
        stage,
        stats: StageStats {
            stage: stage.name.to_string(),
            ..Default::default()
        },
        stop,
        shard,
    };
    match &stage.source {
        Source::Random(mk, cases) => {
            let strat = mk();
            let n = (*cases as usize * scale.max(1) as usize + SHARDS - 1) / SHARDS;
            let cfg = Config {
                cases: n as u32,
                failure_persistence: None,
                ..Config::default()
            };
            let rng = TestRng::from_seed(RngAlgorithm::ChaCha, &seed_bytes(seed, prop, stage.name, shard));
            let mut runner = TestRunner::new_with_rng(cfg, rng);
            for _ in 0..n {
                if stop.load(Ordering::SeqCst) {
                    break;
                }
                let mut tree = match strat.new_tree(&mut runner) {
                    Ok(t) => t,
                    Err(_) => continue,
                };
                let case = tree.current();
                if let Some(msg) = ctx.eval(&case, true) {
                    // shrink
                    let mut best = case;
                    let mut best_msg = msg;
                    let mut iters = 0u32;
                    if tree.simplify() {
                        loop {
                            iters += 1;
                            if iters > max_shrink {
                                break;
                            }
                            let c = tree.current();
                            ctx.stats.shrink_runs += 1;
                            match ctx.eval(&c, false) {
                                Some(m) => {
                                    best = c;
                                    best_msg = m;
                                    if !tree.simplify() {
                                        break;
                                    }
                                }
                                None => {
                                    if !tree.complicate() {
                                        break;
                                    }
                                }
                            }
                        }
                    }
                    ctx.stats.timed_out = None;
                    ctx.fail(&best, best_msg);
                    break;
                }
            }
        }
        Source::Enumerate(f) => {
            for (i, case) in f().enumerate() {
                if i % SHARDS != shard {
                    continue;
                }
                if stop.load(Ordering::SeqCst) {
                    break;
                }
                if let Some(msg) = ctx.eval(&case, true) {
                    ctx.fail(&case, msg);
                    break;
                }
            }
        }
        Source::Fixed(v) => {
            for (i, case) in v.iter().enumerate() {
                if i % SHARDS != shard {
                    continue;
                }
                if let Some(msg) = ctx.eval(case, true) {
                    ctx.fail(case, msg);
                    break;
                }
            }
        }
    }
    ctx.stats
}

pub fn random<C, F: Fn() -> BoxedStrategy<C> + Send + Sync + 'static>(f: F, cases: u32) -> Source<C> {
    Source::Random(Arc::new(f), cases)
}

/// Type-erased stage.
pub trait DynStage: Send + Sync {
    fn name(&self) -> &'static str;
    fn run_all(&self, prop: &str, seed: u64, max_shrink: u32, scale: u32) -> StageStats;
    fn replay(&self, case: &serde_json::Value) -> Result<(Result<(), String>, String), String>;
    /// child-process entry of isolate mode: run the case here and describe the outcome
    fn exec_json(&self, case: &serde_json::Value) -> serde_json::Value;
    /// libFuzzer entry: the bytes become the random stream of this stage's proptest strategy
    /// (RngAlgorithm::PassThrough), the resulting case is judged by the stage's run function.
    /// None: the stage has no random source; Some(None): case passed (or was skipped / timed out).
    fn fuzz_one(&self, data: &[u8]) -> Option<Option<Failure>>;
    fn is_random(&self) -> bool;
}

impl<C> DynStage for Stage<C>
where
    C: Clone + Send + Sync + Debug + Serialize + DeserializeOwned + 'static,
{
    fn name(&self) -> &'static str {
        self.name
    }

    fn run_all(&self, prop: &str, seed: u64, max_shrink: u32, scale: u32) -> StageStats {
        let stop = AtomicBool::new(false);
        let mut total = StageStats {
            stage: self.name.to_string(),
            exhaustive: self.exhaustive,
            rule: self.rule.to_string(),
            ..Default::default()
        };
        let results: Vec<StageStats> = std::thread::scope(|s| {
            let hs: Vec<_> = (0..SHARDS)
                .map(|sh| {
                    let stop = &stop;
                    s.spawn(move || run_shard(prop, self, seed, sh, stop, max_shrink, scale))
                })
                .collect();
            hs.into_iter().map(|h| h.join().expect("shard thread")).collect()
        });
        // deterministic choice of the reported failure: lowest shard index
        for r in results {
            total.merge(r);
        }
        total
    }

    fn is_random(&self) -> bool {
        matches!(self.source, Source::Random(..))
    }

    fn fuzz_one(&self, data: &[u8]) -> Option<Option<Failure>> {
        let Source::Random(f, _) = &self.source else { return None };
        let strat = f();
        // an exhausted pass-through stream yields zeros, on which rand's rejection sampling never terminates:
        // the input is continued by a pseudo-random tail that is a function of the input
        let mut stream = data.to_vec();
        let mut x: u64 = 0x9E37_79B9_7F4A_7C15 ^ (data.len() as u64);
        for b in data {
            x = (x ^ *b as u64).wrapping_mul(0x0000_0100_0000_01B3);
        }
        while stream.len() < data.len() + (1 << 16) {
            x ^= x << 13;
            x ^= x >> 7;
            x ^= x << 17;
            stream.extend_from_slice(&x.to_le_bytes());
        }
        let rng = proptest::test_runner::TestRng::from_seed(proptest::test_runner::RngAlgorithm::PassThrough, &stream);
        let mut runner = proptest::test_runner::TestRunner::new_with_rng(
            proptest::test_runner::Config { failure_persistence: None, ..Default::default() },
            rng,
        );
        let Ok(tree) = strat.new_tree(&mut runner) else { return Some(None) };
        let case = tree.current();
        let msg = match exec_case(&case, self.run, 300) {
            CaseOutcome::Pass(_) | CaseOutcome::Timeout => return Some(None),
            CaseOutcome::Fail(m, _) => {
                if m.starts_with("INCONCLUSIVE:") {
                    return Some(None);
                }
                m
            }
            CaseOutcome::Panic(m, _) => {
                if !self.panic_is_violation {
                    return Some(None);
                }
                m
            }
        };
        Some(Some(Failure { stage: self.name.to_string(), message: msg, case_json: serde_json::to_value(&case).unwrap(), rendered: (self.render)(&case), shard: 0 }))
    }

    fn exec_json(&self, case: &serde_json::Value) -> serde_json::Value {
        match serde_json::from_value::<C>(case.clone()) {
            Ok(c) => outcome_to_json(&exec_case(&c, self.run, self.case_timeout_s)),
            Err(e) => serde_json::json!({"kind": "fail", "msg": format!("INCONCLUSIVE: cannot decode case: {e}")}),
        }
    }

    fn replay(&self, case: &serde_json::Value) -> Result<(Result<(), String>, String), String> {
        let c: C = serde_json::from_value(case.clone()).map_err(|e| format!("cannot decode case: {e}"))?;
        let rendered = (self.render)(&c);
        let out = exec_case(&c, self.run, self.case_timeout_s.max(60));
        let r = match out {
            CaseOutcome::Pass(_) => Ok(()),
            CaseOutcome::Fail(m, _) => Err(m),
            CaseOutcome::Panic(m, _) => {
                if self.panic_is_violation {
                    Err(m)
                } else {
                    // a panic that this property does not own (C08 does): the case is aborted, not failed
                    eprintln!("note: replayed case aborted by a panic that is not a violation of this property: {m}");
                    Ok(())
                }
            }
            CaseOutcome::Timeout => Err("timeout".into()),
        };
        Ok((r, rendered))
    }
}

pub struct Property {
    pub id: &'static str,
    /// multiplier for the number of random cases of every stage
    pub scale: u32,
    pub stages: Vec<Box<dyn DynStage>>,
    pub assumptions: Vec<String>,
}

pub fn wall() -> Instant {
    Instant::now()
}


// ---------------------------------------------------------------------------------------------
// Fork-free choice strategies.  proptest's `prop_oneof!` / `option::weighted` keep a lazily generated tree per
// alternative, for which they fork the runner's RNG; with the pass-through RNG of the libFuzzer path every fork halves
// the remaining byte stream, which is then exhausted after a few dozen choices.  These pick one alternative from one
// 32-bit draw (monotone in the draw, so that shrinking the draw moves towards the first alternative is not needed:
// the chosen alternative shrinks on its own).

pub struct OneOf<T: Debug>(pub Vec<(u32, BoxedStrategy<T>)>);

impl<T: Debug> Debug for OneOf<T> {
    fn fmt(&self, f: &mut std::fmt::Formatter) -> std::fmt::Result {
        write!(f, "OneOf({} alternatives)", self.0.len())
    }
}

impl<T: Debug + 'static> Strategy for OneOf<T> {
    type Tree = Box<dyn ValueTree<Value = T>>;
    type Value = T;
    fn new_tree(&self, runner: &mut TestRunner) -> proptest::strategy::NewTree<Self> {
        use proptest::prelude::RngCore;
        let total: u64 = self.0.iter().map(|(w, _)| *w as u64).sum();
        let r = runner.rng().next_u32() as u64;
        let mut pick = (r * total) >> 32;
        for (w, s) in &self.0 {
            if pick < *w as u64 {
                return s.new_tree(runner);
            }
            pick -= *w as u64;
        }
        self.0.last().unwrap().1.new_tree(runner)
    }
}

#[macro_export]
macro_rules! one_of {
    ($($w:expr => $s:expr),+ $(,)?) => {
        $crate::engine::OneOf(vec![$(($w as u32, proptest::strategy::Strategy::boxed($s))),+])
    };
}

/// Some(x) with probability `p`
pub fn opt_weighted<S: Strategy + 'static>(p: f64, s: S) -> OneOf<Option<S::Value>>
where
    S::Value: Clone + 'static,
{
    let w = (p * 1000.0).round() as u32;
    OneOf(vec![(1000 - w, proptest::strategy::Just(None).boxed()), (w, s.prop_map(Some).boxed())])
}
