#![no_main]
use libfuzzer_sys::fuzz_target;

// bytes -> 16-bit choices -> chunks of 24 choices -> the same decoder the proptest strategies use
fuzz_target!(|data: &[u8]| {
    if data.len() < 4 {
        return;
    }
    let langs = sev::langs::ALL_LANGS;
    let lang = langs[data[0] as usize % langs.len()];
    let extra = u16::from_le_bytes([data[1], data[2]]);
    let choices: Vec<u16> = data[3..].chunks_exact(2).map(|c| u16::from_le_bytes([c[0], c[1]])).collect();
    let chunks: Vec<Vec<u16>> = choices.chunks(24).take(16).map(|c| c.to_vec()).collect();
    let mut cfg = sev::mixed::MixedCfg::for_lang(lang);
    cfg.max_ops = 16;
    let case = sev::mixed::decode_mixed(&cfg, &chunks, extra);
    sev::fuzz::fuzz_case("C08", sev::props::c08::stage_name(lang), sev::props::c08::run_case, true, &case);
});
