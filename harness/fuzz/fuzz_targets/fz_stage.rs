#![no_main]
use libfuzzer_sys::fuzz_target;

// Generic target: the property is named by SEV_FUZZ_PROP; byte 0 selects one of its random stages, the remaining bytes
// are the random stream of that stage's proptest strategy (proptest's PassThrough RNG), so libFuzzer mutates the
// very choices the property-based stages draw and the same run function (oracle included) judges the case.
fuzz_target!(|data: &[u8]| {
    sev::fuzz::fuzz_property(data);
});
