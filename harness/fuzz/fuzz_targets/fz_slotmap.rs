#![no_main]
use libfuzzer_sys::fuzz_target;
use sev::props::c19::{run_long_case, LongSeq};

fuzz_target!(|data: &[u8]| {
    let ops: Vec<(u8, u8, u8)> = data.chunks_exact(3).take(120).map(|c| (c[0], c[1], c[2])).collect();
    sev::fuzz::fuzz_case("C19", "random-long", run_long_case, true, &LongSeq { ops });
});
