#![no_main]
use libfuzzer_sys::fuzz_target;

fuzz_target!(|data: &[u8]| {
    if data.len() < 6 {
        return;
    }
    let a = u16::from_le_bytes([data[0], data[1]]);
    let b = u16::from_le_bytes([data[2], data[3]]);
    let choices: Vec<u16> = data[4..].chunks_exact(2).map(|c| u16::from_le_bytes([c[0], c[1]])).collect();
    let case = sev::props::c16::decode_case(&choices, a, b);
    sev::fuzz::fuzz_case("C16", "random-nodes", sev::props::c16::run_case, true, &case);
});
