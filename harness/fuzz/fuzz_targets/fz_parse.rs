#![no_main]
use libfuzzer_sys::fuzz_target;
use sev::props::c18::{run_text_case, TextCase};

fuzz_target!(|data: &[u8]| {
    if data.is_empty() {
        return;
    }
    let langs = sev::langs::ALL_LANGS;
    let lang = langs[data[0] as usize % langs.len()];
    let text = String::from_utf8_lossy(&data[1..]).to_string();
    sev::fuzz::fuzz_case("C18", "arbitrary-text", run_text_case, true, &TextCase { lang, text });
});
