#!/usr/bin/env python3
"""Sensitivity run: applies hand-written mutants (DESIGN.md section 3, 'Mut') to /repo's working tree one at a
time, runs the quick tier of the checks that should notice, records the outcome, and restores the tree.
Never commits anything in /repo.  usage: bin/mutants.py [name-substring ...]   -> writes /verif/seeded/own/results.json"""
import json, os, subprocess, sys, time, shutil

ROOT = os.path.dirname(os.path.dirname(os.path.abspath(__file__)))
REPO = "/repo"

# (name, file, old, new, [property ids expected to notice])
M = [
 # ---- C01 / C02 core
 ("eq-skips-group", "src/egraph/mod.rs", "        self.classes[&id].group.contains(&perm)\n", "        let _ = perm;\n        true\n", ["C01", "C10"]),
 ("union-keeps-l-slots", "src/egraph/union.rs", "        if l.slots() != cap {\n            self.shrink_slots(&l, &cap, proof.clone());", "        if l.slots() != cap && l.slots().len() > cap.len() + 1 {\n            self.shrink_slots(&l, &cap, proof.clone());", ["C02", "C08"]),
 ("group-contains-loose", "src/group/mod.rs", "                n.g.contains(&p.compose(&part.inverse().to_slotmap()))\n            }\n        }\n    }\n\n    #[cfg", "                let _ = part;\n                true\n            }\n        }\n    }\n\n    #[cfg", ["C01", "C10"]),
 ("lookup-no-slot-filter", "src/egraph/add.rs", "        let out = out.iter().filter(|(x, _)| c.slots.contains(x)).collect();", "        let out: SlotMap = out.iter().collect();", ["C01", "C08", "C09"]),
 ("no-self-symmetries", "src/egraph/rebuild.rs", "        self.determine_self_symmetries(src_id);\n    }\n\n    fn update_analysis", "        let _ = src_id;\n    }\n\n    fn update_analysis", ["C02", "C12"]),
 ("no-touch-after-group-add", "src/egraph/union.rs", "            grp.add(proven_perm);\n\n            self.touched_class(id, PendingType::Full);", "            grp.add(proven_perm);", ["C02"]),
 ("no-upward-shrink", "src/egraph/rebuild.rs", "        while !i.slots().is_subset(&enode.slots()) {\n            self.handle_shrink_in_upwards_merge(src_id);", "        while false && !i.slots().is_subset(&enode.slots()) {\n            self.handle_shrink_in_upwards_merge(src_id);", ["C02", "C08"]),
 ("pre-shape-first-variant", "src/egraph/mod.rs", "            .min_by_key(|pn| pn.weak_shape().0.elem.all_slot_occurrences())\n            .unwrap()", "            .next()\n            .unwrap()", ["C02", "C08", "C09"]),
 ("add-set-forgets-old-generators", "src/group/mod.rs", "            *self = Group::new(&self.identity, &self.generators() | &perms);", "            *self = Group::new(&self.identity, perms);", ["C10", "C02"]),
 ("move-to-skips-group-transport", "src/egraph/union.rs", "        if self.classes.get_mut(&to.id).unwrap().group.add_set(set) {", "        if false && self.classes.get_mut(&to.id).unwrap().group.add_set(set) {", ["C02", "C12"]),
 ("crossing-generators-dropped", "src/egraph/rebuild.rs", "        for p in crossing {", "        for p in crossing.into_iter().take(0) {", ["C02", "C10"]),
 ("self-sym-redundancy-dropped", "src/egraph/rebuild.rs", "                if a.slots() != b.slots() {\n                    self.union_internal(&a, &b, proof);\n                    self.determine_self_symmetries(src_id);\n                    return;\n                }", "                if a.slots() != b.slots() {\n                    continue;\n                }", ["C02"]),
 # ---- C03 / C04 / C05 matching and substitution
 ("final-subst-reuses-fresh", "src/rewrite/ematch.rs", "    for (_, v) in subst.iter_mut() {\n        // All slots that are not covered by the pattern, need a fresh new name.\n        for s in v.slots() {\n            if !slotmap.contains_key(s) {\n                slotmap.insert(s, Slot::fresh());", "    let one = Slot::fresh();\n    for (_, v) in subst.iter_mut() {\n        // All slots that are not covered by the pattern, need a fresh new name.\n        for s in v.slots() {\n            if !slotmap.contains_key(s) {\n                slotmap.insert(s, one);", ["C03", "C05", "C08"]),
 ("slotmap-bij-test-dropped", "src/rewrite/ematch.rs", "    map.insert(k, v);\n    map.is_bijection()", "    map.insert(k, v);\n    true", ["C03", "C05", "C04"]),
 ("term-subst-ignores-slots", "src/rewrite/subst_method.rs", "    if app_id == *x {", "    if app_id.id == x.id {", ["C03"]),
 ("pvar-compares-syntactically", "src/rewrite/ematch.rs", "                if !eg.eq(&i, j) {", "                if &i != j {", ["C04"]),
 ("ematch-skips-last-id", "src/rewrite/ematch.rs", "    for i in eg.ids() {\n        let i = eg.mk_sem_identity_applied_id(i);", "    let mut all_ids = eg.ids();\n    all_ids.pop();\n    for i in all_ids {\n        let i = eg.mk_sem_identity_applied_id(i);", ["C04", "C15"]),
 ("ematch-first-variant-only", "src/rewrite/ematch.rs", "    'nodeloop: for n2 in eg.get_group_compatible_weak_variants(&nn) {", "    'nodeloop: for n2 in eg.get_group_compatible_weak_variants(&nn).into_iter().take(1) {", ["C04"]),
 ("multipat-unify-without-eq", "src/rewrite/multipat.rs", "        if eg.eq(x, y) {\n            vec![st]", "        if true || eg.eq(x, y) {\n            vec![st]", ["C05"]),
 ("multipat-ignores-diseq", "src/rewrite/multipat.rs", "    if let Some(xx) = st.diseq_constraints.get(&x) { if xx.contains(&y) { return None } }\n    if let Some(yy) = st.diseq_constraints.get(&y) { if yy.contains(&x) { return None } }", "", ["C05"]),
 ("appliers-interleaved", "src/rewrite/mod.rs", "    let ts: Vec<Box<dyn Any>> = rewrites.iter().map(|rw| (*rw.searcher)(eg)).collect();\n    for (rw, t) in rewrites.iter().zip(ts.into_iter()) {\n        (*rw.applier)(t, eg);\n    }", "    for rw in rewrites.iter() {\n        let t = (*rw.searcher)(eg);\n        (*rw.applier)(t, eg);\n    }", ["C04", "C15"]),
 ("enodes-applied-no-refresh", "src/egraph/mod.rs", "                        let v = Slot::fresh();\n                        map.insert(slot.clone(), v.clone());\n                        *slot = v;", "                        let v = slot.clone();\n                        map.insert(slot.clone(), v.clone());\n                        *slot = v;", ["C03", "C05", "C04"]),
 # ---- C06 extraction
 ("extract-max-heap", "src/extract/with_ord.rs", "        other.1.partial_cmp(&self.1)", "        self.1.partial_cmp(&other.1)", ["C06", "C14"]),
 ("extract-overwrites-best", "src/extract/mod.rs", "            if map.contains_key(&i.id) {\n                continue;\n            }\n            map.insert", "            map.insert", ["C06", "C14"]),
 ("extract-ignores-arguments", "src/extract/mod.rs", "        let l = self.map[&i.id].0.apply_slotmap_fresh(&i.m);", "        let l = self.map[&i.id].0.apply_slotmap_fresh(&SlotMap::identity(&i.m.keys()));", ["C06", "C13"]),
 ("class-nf-no-fresh", "src/lang.rs", "            let y = m.get(*x).or_else(|| fresh.get(*x)).unwrap_or_else(|| {\n                let f = Slot::fresh();\n                fresh.insert(*x, f);\n                f\n            });", "            let y = m.get(*x).unwrap_or_else(Slot::fresh);", ["C06"]),
 # ---- C07 explanations
 ("perm-compose-swaps-proofs", "src/explain/wrapper/perm.rs", "        let prf = prove_transitivity(other.proof.clone(), self.proof.clone(), &self.reg);", "        let prf = prove_transitivity(self.proof.clone(), other.proof.clone(), &self.reg);", ["C07"]),
 ("perm-inverse-no-symmetry", "src/explain/wrapper/perm.rs", "        let prf = prove_symmetry(self.proof.clone(), &self.reg);", "        let prf = self.proof.clone();", ["C07"]),
 ("union-perm-orientation", "src/egraph/union.rs", "            let perm = r.m.compose(&l.m.inverse());", "            let perm = l.m.compose(&r.m.inverse());", ["C07"]),
 ("syn-node-capture", "src/egraph/mod.rs", "        if syn.private_slot_occurrences().iter().any(|s| args.contains(s)) {", "        if false && syn.private_slot_occurrences().iter().any(|s| args.contains(s)) {", ["C07"]),
 # ---- C08 structure
 ("remove-forgets-usages", "src/egraph/add.rs", "        for ref_id in sh.ids() {\n            let usages = &mut self.classes.get_mut(&ref_id).unwrap().usages;\n            usages.remove(&sh);\n        }", "", ["C08", "C02"]),
 ("move-to-keeps-nodes", "src/egraph/union.rs", "            self.raw_remove_from_class(from.id, sh.clone());\n            // if `sh` contains", "            // if `sh` contains", ["C08"]),
 ("shrink-keeps-old-generators", "src/egraph/rebuild.rs", "            let perm = proven_perm\n                .elem\n                .into_iter()\n                .filter(|(x, _)| cap.contains(x))\n                .collect();", "            let perm: Perm = proven_perm\n                .elem\n                .into_iter()\n                .filter(|(x, y)| cap.contains(x) || x == y)\n                .collect();", ["C08", "C01", "C10"]),
 ("add-syn-no-rebuild (explanations only)", "src/egraph/add.rs", "            self.handle_congruence(pc);\n            // the congruence union above leaves pending work; without this the e-graph stays un-normalized until the next union.\n            self.rebuild();", "            self.handle_congruence(pc);", ["C08"]),
 # ---- C09
 ("lookup-wrong-bijection", "src/egraph/add.rs", "        let out = cn_bij.inverse().compose(&n_bij);", "        let out = cn_bij.inverse().compose_partial(&n_bij.inverse().inverse());\n        let out = if out.len() >= 2 { let ks = out.keys_vec(); let vs = out.values_vec(); let mut o = SlotMap::new(); for (i, k) in ks.iter().enumerate() { o.insert(*k, vs[(i + 1) % vs.len()]); } o } else { out };", ["C09", "C01", "C08"]),
 ("add-never-looks-up", "src/egraph/add.rs", "        if let Some(x) = self.lookup_internal(&t) {\n            return x;\n        }\n\n        // TODO this code", "        if t.0.applied_id_occurrences().len() > 1 {\n            if let Some(x) = self.lookup_internal(&t) {\n                return x;\n            }\n        }\n\n        // TODO this code", ["C09", "C08"]),
 # ---- C10 group
 ("schreier-no-inverse", "src/group/mod.rs", "            let rs2_inv = ot[&rs[stab]].inverse();\n            out.insert(rs.compose(&rs2_inv));", "            let rs2_inv = ot[&rs[stab]].clone();\n            out.insert(rs.compose(&rs2_inv));", ["C10"]),
 ("lowest-nonstab-max", "src/group/mod.rs", "                min = min.iter().copied().chain(std::iter::once(x)).min();", "                min = min.iter().copied().chain(std::iter::once(x)).max();", ["C10"]),
 ("build-ot-single-pass", "src/group/mod.rs", "        let len2 = ot.len();\n        if len == len2 {\n            break;\n        }", "        let len2 = ot.len();\n        if len == len2 || true {\n            break;\n        }", ["C10", "C02"]),
 ("add-set-growth-report", "src/group/mod.rs", "        perms.retain(|x| !self.contains(&x.to_slotmap()));\n\n        if !perms.is_empty() {", "        let nonempty = !perms.is_empty();\n        perms.retain(|x| !self.contains(&x.to_slotmap()));\n\n        if nonempty {", ["C10"]),
 # ---- C11 / C12
 ("class-slots-by-name-order", "src/egraph/add.rs", "        for s in syn_enode.public_slot_occurrences() {\n            if !old_to_fresh.contains_key(s) {", "        for s in syn_enode.slots() {\n            if !old_to_fresh.contains_key(s) {", ["C11"]),
 ("right-order-by-id", "src/egraph/union.rs", "                // prefer bigger e-classes, because then we need to update less.\n                size(l) <= size(r)", "                // prefer bigger e-classes, because then we need to update less.\n                size(l) < size(r)", []),
 # ---- C13
 ("progress-counts-dead-slots", "src/rewrite/mod.rs", "            sum_of_slots: ids.iter().map(|x| self.slots(*x).len()).sum(),", "            sum_of_slots: self.classes.keys().map(|x| self.slots(*x).len()).sum(),", ["C13", "C15", "C02"]),
 ("find-stale-compression", "src/egraph/find.rs", "        map[i.0] = new.clone();\n        new", "        map[i.0] = entry_to_leader.clone();\n        new", ["C13", "C08", "C01"]),
 # ---- C14
 ("analysis-no-touch", "src/egraph/rebuild.rs", "        if new != old {\n            self.modify_queue.push(i);\n            self.touched_class(i, PendingType::OnlyAnalysis);\n        }\n    }\n\n    fn handle_shrink", "        if new != old {\n            self.modify_queue.push(i);\n        }\n    }\n\n    fn handle_shrink", ["C14"]),
 ("move-to-overwrites-analysis", "src/egraph/union.rs", "            let analysis_to = self.analysis_data_mut(to.id);\n            let old_analysis_to = analysis_to.clone();\n            let new_analysis_to = N::merge(analysis_from, analysis_to.clone());", "            let big = self.classes[&from.id].nodes.len() > 1;\n            let analysis_to = self.analysis_data_mut(to.id);\n            let old_analysis_to = analysis_to.clone();\n            let new_analysis_to = if big { analysis_from } else { N::merge(analysis_from, analysis_to.clone()) };", ["C14"]),
 # ---- C15
 ("progress-without-symmetries", "src/rewrite/mod.rs", "    prog != eg.progress()\n}", "    let now = eg.progress();\n    prog.number_of_classes != now.number_of_classes || prog.number_of_live_classes != now.number_of_live_classes || prog.sum_of_slots != now.sum_of_slots\n}", ["C15"]),
 ("progress-without-slots", "src/rewrite/mod.rs", "    prog != eg.progress()\n}", "    let now = eg.progress();\n    prog.number_of_classes != now.number_of_classes || prog.number_of_live_classes != now.number_of_live_classes || prog.sum_of_symmetries != now.sum_of_symmetries\n}", ["C15"]),
 ("node-limit-off-by-one", "src/run/runner.rs", "        } else if eg.total_number_of_nodes() > self.node_limit {", "        } else if eg.total_number_of_nodes() >= self.node_limit {", ["C15"]),
 ("saturated-whenever-hooks-pass", "src/run/runner.rs", "        if !progress {\n            result = result.and_then(|_| Err(StopReason::Saturated));", "        if !progress || self.iterations.len() >= 2 {\n            result = result.and_then(|_| Err(StopReason::Saturated));", ["C15"]),
 ("eqsat-iteration-limit-late", "src/run/run.rs", "        if iterations >= iter_limit {", "        if iterations >= iter_limit + 3 {", ["C15"]),
 # ---- C16 / C18 derive + lang
 ("bind-shape-no-restore", "src/lang.rs", "        if let Some(x) = shadowed {\n            m.0.insert(s, x);\n        }", "        let _ = shadowed;", ["C16"]),
 ("bind-public-no-filter", "src/lang.rs", "    fn public_slot_occurrences_iter(&self) -> impl Iterator<Item = &Slot> {\n        self.elem\n            .public_slot_occurrences_iter()\n            .filter(|x| **x != self.slot)\n    }", "    fn public_slot_occurrences_iter(&self) -> impl Iterator<Item = &Slot> {\n        self.elem\n            .public_slot_occurrences_iter()\n            .filter(|x| **x != self.slot || true)\n    }", ["C16", "C08", "C09"]),
 ("shape-numbering-from-one", "src/lang.rs", "fn add_slot(s: &mut Slot, m: &mut (SlotMap, u32)) {\n    let s2 = Slot::numeric(m.1);", "fn add_slot(s: &mut Slot, m: &mut (SlotMap, u32)) {\n    let s2 = Slot::numeric(m.1 % 3);", ["C16", "C08"]),
 ("derive-slots-from-all", "slotted-egraphs-derive/src/lib.rs", "fn produce_slots(name: &Ident, v: &Variant) -> TokenStream2 {\n    let variant_name = &v.ident;\n    let n = v.fields.len();\n    let fields: Vec<Ident> = (0..n)\n        .map(|x| Ident::new(&format!(\"a{x}\"), proc_macro2::Span::call_site()))\n        .collect();\n    quote! {\n        #name::#variant_name(#(#fields),*) => {\n            let out = std::iter::empty();\n            #(\n                let out = out.chain(#fields .public_slot_occurrences_iter().copied());", "fn produce_slots(name: &Ident, v: &Variant) -> TokenStream2 {\n    let variant_name = &v.ident;\n    let n = v.fields.len();\n    let fields: Vec<Ident> = (0..n)\n        .map(|x| Ident::new(&format!(\"a{x}\"), proc_macro2::Span::call_site()))\n        .collect();\n    quote! {\n        #name::#variant_name(#(#fields),*) => {\n            let out = std::iter::empty();\n            #(\n                let out = out.chain(#fields .all_slot_occurrences_iter().copied());", ["C16", "C08"]),
 ("display-subst-swapped", "src/parse.rs", "            Pattern::Subst(b, x, t) => write!(f, \"{b}[{x} := {t}]\"),", "            Pattern::Subst(b, x, t) => write!(f, \"{b}[{t} := {x}]\"),", ["C18"]),
 ("tokenize-no-trim", "src/parse.rs", "        s = s.trim_start();\n        if s.is_empty() {\n            break;\n        }", "        s = s.trim_start_matches(' ');\n        if s.is_empty() {\n            break;\n        }", ["C18"]),
 ("remaining-rest-accepted", "src/parse.rs", "        if !rest.is_empty() {\n            return Err(ParseError::RemainingRest(to_vec(rest)));\n        }", "        if rest.len() > 1 {\n            return Err(ParseError::RemainingRest(to_vec(rest)));\n        }", ["C18"]),
 ("arity-check-dropped", "src/parse.rs", "        if node.to_syntax().len() != syntax_elems_mock.len() {", "        if false && node.to_syntax().len() != syntax_elems_mock.len() {", ["C18"]),
 # ---- C17 slots
 ("named-f-no-bump", "src/slot.rs", "                    if tab.fresh_idx <= out {\n                        tab.fresh_idx = out + 4;\n                    }", "                    if tab.fresh_idx < out {\n                        tab.fresh_idx = out + 4;\n                    }", ["C17"]),
 ("noncanonical-number-names", "src/slot.rs", "            if x.to_string() == s {\n                return Slot(x * 4); // numeric\n            }", "            if x.to_string() == s || s.starts_with('0') {\n                return Slot(x * 4); // numeric\n            }", ["C17"]),
 # ---- C19 slotmap
 ("slotmap-insert-append", "src/slotmap.rs", "            Err(i) => {\n                self.map.insert(i, (l, r));\n            }", "            Err(i) => {\n                if self.map.len() >= 10 { self.map.push((l, r)); } else { self.map.insert(i, (l, r)); }\n            }", ["C19"]),
 ("compose-partial-wrong-lookup", "src/slotmap.rs", "    pub fn compose_partial(&self, other: &SlotMap) -> SlotMap {\n        let mut out = SlotMap::new();\n        for (x, y) in self.iter() {\n            if let Some(z) = other.get(y) {", "    pub fn compose_partial(&self, other: &SlotMap) -> SlotMap {\n        let mut out = SlotMap::new();\n        for (x, y) in self.iter() {\n            if let Some(z) = other.get(if self.len() > 3 { x } else { y }) {", ["C19", "C08"]),
 ("try-union-some-on-conflict", "src/slotmap.rs", "                if y != z {\n                    return None;\n                }", "                if y != z && self.len() < 3 {\n                    return None;\n                }", ["C19"]),
 ("remove-wrong-index", "src/slotmap.rs", "        if let Ok(i) = self.search(x) {\n            self.map.remove(i);\n        }", "        if let Ok(i) = self.search(x) {\n            self.map.remove(if self.map.len() > 4 { i.saturating_sub(1) } else { i });\n        }", ["C19"]),
 # ---- more, added after the first round
 ("pending-merge-dropped", "src/egraph/rebuild.rs", "            let v = self.pending.entry(sh.clone()).or_insert(pending_ty);\n            *v = v.merge(pending_ty);", "            self.pending.entry(sh.clone()).or_insert(pending_ty);", ["C08", "C14"]),
 ("self-sym-no-requeue", "src/egraph/rebuild.rs", "                if grp.add(proven_perm) {\n                    self.touched_class(i, PendingType::Full);\n                }", "                grp.add(proven_perm);", ["C08", "C02"]),
 ("eq-ignores-slot-values", "src/egraph/mod.rs", "        if a.m.values() != b.m.values() {\n            return false;\n        }", "        if a.m.values().len() != b.m.values().len() {\n            return false;\n        }", ["C01", "C08"]),
 ("compose-fresh-reuses", "src/slotmap.rs", "            } else {\n                out.insert(x, Slot::fresh());\n            }\n        }\n        out\n    }\n\n    pub fn identity", "            } else {\n                out.insert(x, y);\n            }\n        }\n        out\n    }\n\n    pub fn identity", ["C19", "C08"]),
 ("runner-report-stale-nodes", "src/run/runner.rs", "            egraph_nodes: self.egraph.total_number_of_nodes(),", "            egraph_nodes: self.iterations.last().map(|i| i.num_nodes).unwrap_or(0).max(1) - 1 + 1,", []),
 ("find-lowest-by-display", "src/group/mod.rs", "                min = min.iter().copied().chain(std::iter::once(x)).min();", "                min = min.iter().copied().chain(std::iter::once(x)).min_by_key(|s: &Slot| s.to_string());", []),
 # ---- C20
 ("std-hashmap-in-pending", "src/egraph/mod.rs", "    pending: HashMap<L, PendingType>,", "    pending: std::collections::HashMap<L, PendingType>,", ["C20"]),
]


def sh(cmd, **kw):
    return subprocess.run(cmd, shell=True, capture_output=True, text=True, **kw)


def clean():
    sh(f"git -C {REPO} checkout -- .")


def main():
    filt = sys.argv[1:]
    assert sh(f"git -C {REPO} status --porcelain").stdout.strip() == "", "/repo is not clean"
    out_dir = os.path.join(ROOT, "seeded", "own")
    os.makedirs(out_dir, exist_ok=True)
    res_path = os.path.join(out_dir, "results.json")
    results = json.load(open(res_path)) if os.path.exists(res_path) else {}
    ev_backup = os.path.join(ROOT, "harness", "target", "evidence-backup")
    shutil.rmtree(ev_backup, ignore_errors=True)
    shutil.copytree(os.path.join(ROOT, "evidence"), ev_backup)
    try:
        for (name, file, old, new, props) in M:
            if filt and not any(f in name for f in filt):
                continue
            path = os.path.join(REPO, file)
            src = open(path).read()
            if old not in src:
                results[name] = {"status": "pattern-not-found", "file": file}
                print(name, "PATTERN NOT FOUND")
                continue
            open(path, "w").write(src.replace(old, new, 1))
            entry = {"file": file, "expected": props, "checks": {}}
            try:
                b = sh(f"cd {REPO} && cargo build --offline 2>&1 | grep -E '^error' -A 6 | head -20")
                if b.stdout.strip():
                    entry["status"] = "does-not-compile"
                    entry["build"] = b.stdout[:600]
                    print(name, "DOES NOT COMPILE")
                else:
                    killed = []
                    for pid in props:
                        t0 = time.time()
                        r = sh(f"cd {ROOT} && bin/check {pid} quick 2>&1 | grep -E '^(VIOLATION|INCONCLUSIVE|OK)' | head -3")
                        line = r.stdout.strip().replace("\n", " | ")
                        verdict = "VIOLATION" if "VIOLATION" in line else ("INCONCLUSIVE" if "INCONCLUSIVE" in line else "passed")
                        entry["checks"][pid] = {"verdict": verdict, "line": line[:300], "seconds": round(time.time() - t0, 1)}
                        if verdict == "VIOLATION":
                            killed.append(pid)
                    entry["status"] = "killed" if killed else ("no-expected-check" if not props else "survived")
                    entry["killed_by"] = killed
                    print(name, entry["status"], killed, {k: v["verdict"] for k, v in entry["checks"].items()})
            finally:
                clean()
            results[name] = entry
            json.dump(results, open(res_path, "w"), indent=1)
    finally:
        clean()
        shutil.rmtree(os.path.join(ROOT, "evidence"), ignore_errors=True)
        shutil.copytree(ev_backup, os.path.join(ROOT, "evidence"))
    k = sum(1 for v in results.values() if v.get("status") == "killed")
    print(f"killed {k} of {len(results)}")


if __name__ == "__main__":
    main()
