#!/usr/bin/env python3
"""Evaluates a sub-agent's seeded change.
  phase verify:  in a scratch worktree of /repo (never /repo itself): the patch applies, the pinned suite still gives
                 82 passed / the same 3 failed, the demonstration fails with the change and passes without it.
  phase detect:  applies the patch to /repo's working tree, runs the quick tier of the target property's check (and, if that
                 stays silent, of all other checks), and restores /repo (git checkout -- .).  Nothing is ever committed in /repo.
usage: bin/seed_eval.py verify|detect <PID> <a|b|c|d> [--all]
Results: /verif/seeded/<PID>-<x>/{patch.diff, demo.rs, agent_meta.txt, meta.json}"""
import json, os, re, shutil, subprocess, sys, time

ROOT = os.path.dirname(os.path.dirname(os.path.abspath(__file__)))
REPO = "/repo"
SCRATCH = os.environ.get("MUTVERIFY_DIR", "/tmp/mutverify")
ALL = ["C%02d" % i for i in range(1, 21)]


def sh(cmd, **kw):
    return subprocess.run(cmd, shell=True, capture_output=True, text=True, **kw)


def suite(cwd, features=""):
    f = f"--features {features}" if features else ""
    r = sh(f"cd {cwd} && cargo test --workspace --no-fail-fast --offline {f} 2>&1 | grep -E '^test |^test result'")
    passed = len(re.findall(r"^test .* \.\.\. ok$", r.stdout, re.M))
    failed = sorted(re.findall(r"^test (.*) \.\.\. FAILED$", r.stdout, re.M))
    # tests with a wall-clock limit (rise::tst::*) fail under heavy machine load: an unexpected failure is re-run on its own
    for t in list(failed):
        if "redundancy_matching_bug" in t:
            continue
        r2 = sh(f"cd {cwd} && cargo test --offline {f} --test entry -- --exact {t} 2>&1 | grep -E '^test result'")
        if re.search(r"1 passed; 0 failed", r2.stdout):
            failed.remove(t)
            passed += 1
    return passed, failed


def demo(cwd, name, features=""):
    f = f"--features {features}" if features else ""
    r = sh(f"cd {cwd} && cargo test --offline {f} --test {name} 2>&1 | grep -E '^test result|^error' | head -3")
    out = r.stdout.strip()
    if "error" in out and "test result" not in out:
        return "build-error", out
    m = re.search(r"(\d+) passed; (\d+) failed", out)
    if not m:
        return "no-result", out
    return ("fails" if int(m.group(2)) > 0 else "passes"), out


def load_meta(d):
    p = os.path.join(d, "meta.json")
    return json.load(open(p)) if os.path.exists(p) else {}


def save_meta(d, m):
    json.dump(m, open(os.path.join(d, "meta.json"), "w"), indent=1)


def verify(pid, x, src=None):
    # rounds of sub-agents hand over under /tmp/mut<k>/<pid>/handover/{a,b}; later rounds pass --src <dir>
    if src is None:
        src = f"/tmp/mut/{pid}/handover/{x}" if x in "ab" else f"/tmp/mut2/{pid}/handover/{'a' if x == 'c' else 'b'}"
    dst = os.path.join(ROOT, "seeded", f"{pid}-{x}")
    os.makedirs(dst, exist_ok=True)
    for f, g in [("patch.diff", "patch.diff"), ("demo.rs", "demo.rs"), ("meta.txt", "agent_meta.txt")]:
        if os.path.exists(os.path.join(src, f)):
            shutil.copy(os.path.join(src, f), os.path.join(dst, g))
    meta = load_meta(dst)
    meta.update({"property": pid, "variant": x, "source": "independent sub-agent given only the property text and a scratch worktree"})
    if not os.path.exists(SCRATCH):
        assert sh(f"git -C {REPO} worktree add -q --detach {SCRATCH} HEAD").returncode == 0
    sh(f"git -C {SCRATCH} checkout -q --detach $(git -C {REPO} rev-parse HEAD) && git -C {SCRATCH} checkout -- . && git -C {SCRATCH} clean -fdq tests")
    feat = "explanations" if pid == "C07" else ""
    ap = sh(f"git -C {SCRATCH} apply {dst}/patch.diff")
    meta["applies"] = ap.returncode == 0
    if not meta["applies"]:
        meta["verify"] = "patch does not apply: " + ap.stderr[:300]
        save_meta(dst, meta)
        print(pid, x, meta["verify"])
        return
    dname = f"demo_{pid.lower()}_{x}"
    p, f = suite(SCRATCH)
    f_wo_demo = [t for t in f if "redundancy_matching_bug" not in t]
    meta["suite_with_change"] = {"passed": p, "failed": f, "unexpected_failures": f_wo_demo}
    shutil.copy(os.path.join(dst, "demo.rs"), os.path.join(SCRATCH, "tests", dname + ".rs"))
    d_with, o1 = demo(SCRATCH, dname, feat)
    sh(f"git -C {SCRATCH} apply -R {dst}/patch.diff")
    d_without, o2 = demo(SCRATCH, dname, feat)
    meta["demo_with_change"] = d_with + " :: " + o1
    meta["demo_without_change"] = d_without + " :: " + o2
    meta["confirmed"] = bool(not f_wo_demo and p == 82 and d_with == "fails" and d_without == "passes")
    meta["ran"] = [f"git apply patch.diff (scratch worktree {SCRATCH})", "cargo test --workspace --no-fail-fast --offline", f"cargo test --offline {('--features ' + feat) if feat else ''} --test {dname}  (with and without the change)"]
    os.remove(os.path.join(SCRATCH, "tests", dname + ".rs"))
    save_meta(dst, meta)
    print(pid, x, "confirmed" if meta["confirmed"] else "NOT CONFIRMED", f_wo_demo, d_with, d_without)


def detect(pid, x, run_all=False, fresh=False, also=()):
    dst = os.path.join(ROOT, "seeded", f"{pid}-{x}")
    meta = load_meta(dst)
    if fresh:
        meta.pop("detection", None)
        meta.pop("caught_by", None)
    assert sh(f"git -C {REPO} status --porcelain").stdout.strip() == "", "/repo is not clean"
    ev_backup = os.path.join(ROOT, "harness", "target", "evidence-backup-seed")
    shutil.rmtree(ev_backup, ignore_errors=True)
    shutil.copytree(os.path.join(ROOT, "evidence"), ev_backup)
    try:
        assert sh(f"git -C {REPO} apply {dst}/patch.diff").returncode == 0, "patch does not apply to /repo"
        res = meta.get("detection", {})
        order = [pid] + ([q for q in ALL if q != pid] if run_all else [q for q in also if q != pid])
        for q in order:
            if q in res and res[q].get("verdict") in ("VIOLATION", "silent"):
                continue
            t0 = time.time()
            r = sh(f"cd {ROOT} && bin/check {q} quick 2>&1 | grep -E '^(VIOLATION|INCONCLUSIVE|OK)' | head -3")
            line = r.stdout.strip().replace("\n", " | ")
            verdict = "VIOLATION" if "VIOLATION" in line else ("INCONCLUSIVE" if "INCONCLUSIVE" in line else "silent")
            res[q] = {"verdict": verdict, "line": line[:400], "seconds": round(time.time() - t0, 1)}
            # keep the replay file of the first violation next to the patch
            m = re.search(r"replay=(\S+)", line)
            if verdict == "VIOLATION" and m and os.path.exists(m.group(1)):
                shutil.copy(m.group(1), os.path.join(dst, f"replay-{q}.json"))
            print(pid, x, q, verdict, flush=True)
            if verdict == "VIOLATION" and not run_all and not also:
                break
        meta["detection"] = res
        meta["caught_by"] = sorted(q for q, v in res.items() if v["verdict"] == "VIOLATION")
    finally:
        sh(f"git -C {REPO} checkout -- .")
        shutil.rmtree(os.path.join(ROOT, "evidence"), ignore_errors=True)
        shutil.copytree(ev_backup, os.path.join(ROOT, "evidence"))
    save_meta(dst, meta)


if __name__ == "__main__":
    phase, pid, x = sys.argv[1], sys.argv[2], sys.argv[3]
    if phase == "verify":
        verify(pid, x, sys.argv[sys.argv.index("--src") + 1] if "--src" in sys.argv else None)
    else:
        also = tuple(sys.argv[sys.argv.index("--also") + 1].split(",")) if "--also" in sys.argv else ()
        detect(pid, x, "--all" in sys.argv, "--fresh" in sys.argv, also)
        m = load_meta(os.path.join(ROOT, "seeded", f"{pid}-{x}"))
        if not m.get("caught_by") and "--all" not in sys.argv and "--target-only" not in sys.argv:
            detect(pid, x, True)
