#!/usr/bin/env python3
"""Regenerates the measured tables of DESIGN.md (between <!-- AUTO:name --> ... <!-- /AUTO:name --> markers) from the
committed evidence files and from /verif/seeded/*/meta.json + /verif/seeded/own/results.json."""
import glob, json, os, re

ROOT = os.path.dirname(os.path.dirname(os.path.abspath(__file__)))


def coverage():
    out = ["| id | tier | configs | evaluations | distinct non-trivial | oracle comparisons | excluded for an open finding | wall s | most frequent case classes |", "|----|------|---------|-------------|----------------------|--------------------|------------------------------|--------|-----------------------------|"]
    for f in sorted(glob.glob(os.path.join(ROOT, "evidence", "C*.json"))):
        e = json.load(open(f))
        c = e["coverage"]
        cmp_ = sum(s.get("oracle_comparisons", 0) for s in c.get("stages", []))
        exc = {}
        classes = {}
        ev = 0
        for s in c.get("stages", []):
            ev += s.get("evaluations", 0)
            for k, v in s.get("excluded_known", {}).items():
                exc[k] = exc.get(k, 0) + v
            for k, v in s.get("classes", {}).items():
                classes[k] = classes.get(k, 0) + v
        top = sorted(classes.items(), key=lambda kv: -kv[1])[:4]
        tops = ", ".join(f"{k} {100 * v // max(ev, 1)}%" for k, v in top)
        out.append(f"| {e['property_id']} | {e['tier']} | {'+'.join(c.get('configs', []))} | {c['evaluations']} | {c['distinct_nontrivial']} | {cmp_} | {exc if exc else '-'} | {e['wall_s']:.0f} | {tops} |")
    return "\n".join(out)


def seeded():
    out = ["| change | breaks | what it needs | confirmed in scratch worktree | caught by (quick tier) | first round (before strengthening) |", "|--------|--------|---------------|-------------------------------|------------------------|--------------------------------------|"]
    for d in sorted(glob.glob(os.path.join(ROOT, "seeded", "C*-[a-z]"))):
        mp = os.path.join(d, "meta.json")
        if not os.path.exists(mp):
            continue
        m = json.load(open(mp))
        needs = m.get("needs", "")
        what = m.get("summary", "")
        caught = m.get("caught_by")
        det = m.get("detection", {})
        inconcl = [k for k, v in det.items() if v["verdict"] == "INCONCLUSIVE"]
        c = ", ".join(caught) if caught else ("**not caught**" if det else "(not run)")
        if inconcl:
            c += f" (inconclusive: {', '.join(inconcl)})"
        fr = m.get("first_round_caught_by")
        frs = ", ".join(fr) if fr else ("not caught" if "first_round_detection" in m else "-")
        out.append(f"| {os.path.basename(d)} | {what} | {needs} | {'yes' if m.get('confirmed') else 'NO'} | {c} | {frs} |")
    return "\n".join(out)


def own():
    p = os.path.join(ROOT, "seeded", "own", "results.json")
    if not os.path.exists(p):
        return "(not run)"
    r = json.load(open(p))
    out = ["| mutant | file | outcome | checks that reported a VIOLATION | checks that stayed silent |", "|--------|------|---------|-----------------------------------|---------------------------|"]
    for k, v in r.items():
        ch = v.get("checks", {})
        out.append(f"| {k} | {v.get('file', '')} | {v.get('status')} | {', '.join(v.get('killed_by', []) or [])} | {', '.join(q for q, x in ch.items() if x['verdict'] != 'VIOLATION')} |")
    k = sum(1 for v in r.values() if v.get("status") == "killed")
    out.append("")
    out.append(f"{k} of {len(r)} killed; {sum(1 for v in r.values() if v.get('status') == 'survived')} survived; {sum(1 for v in r.values() if v.get('status') == 'does-not-compile')} did not compile.")
    return "\n".join(out)


def main():
    p = os.path.join(ROOT, "DESIGN.md")
    s = open(p).read()
    for name, fn in [("coverage", coverage), ("seeded", seeded), ("own", own)]:
        a, b = f"<!-- AUTO:{name} -->", f"<!-- /AUTO:{name} -->"
        if a in s and b in s:
            i, j = s.index(a) + len(a), s.index(b)
            s = s[:i] + "\n" + fn() + "\n" + s[j:]
    open(p, "w").write(s)


main()
