#!/usr/bin/env python3
"""Adds the human-written 'summary' (what the change is) and 'needs' (what it takes to manifest) to /verif/seeded/*/meta.json."""
import json, os

ROOT = os.path.dirname(os.path.dirname(os.path.abspath(__file__)))
N = {
 "C01-a": ("Group::contains gets a 'fast path': with a trivial next stabilizer level it accepts as soon as the image of the base point is in the orbit", "a class with >= 3 slots whose group is non-trivial with trivial point stabilizer (a 3-cycle, or one transposition on 3 slots); then eq accepts non-derivable permutations"),
 "C01-b": ("pc_find normalises the e-node with find only, not with the canonical group variant; congruent parents are then aligned by position", "a symmetric child class used by two parents in opposite argument orders that share a slot with a sibling child, parents made congruent by a later union of their children"),
 "C02-a": ("move_to no longer re-queues the parents of the surviving class when it inherits symmetries", "a symmetric class absorbed into a non-symmetric class that already has a parent and survives the union"),
 "C02-b": ("determine_self_symmetries does not restart after asserting a redundancy found through a variant", "a parent with a redundant slot whose child receives two generators in one union, in an enumeration order that visits the redundant-exchanging variant first (12 of 24 argument arrangements)"),
 "C03-a": ("the condition combinator `and` evaluates `||`", "a rule guarded by and(c1, c2) applied to an instance where exactly one conjunct holds, and a model in which the leaked slot matters"),
 "C03-b": ("same edit as C01-b (pc_find without the canonical variant), found independently", "symmetric child (through a rewrite a+b=>b+a), parents that become congruent after another rewrite unions their children"),
 "C04-a": ("ematch_node enumerates group-compatible variants only when the pattern node itself carries slots", "a slot-free pattern node whose children constrain slots across each other, child class symmetric, stored orientation opposite to the pattern's"),
 "C04-b": ("ematch_node stops after the first variant that produced matches", "symmetric child, a sibling that anchors slots, a left side matching in both orientations and a right side that tells them apart"),
 "C05-a": ("repeated pattern variable: eq replaced by 'same class and same slot set' unless the class has symmetries", "non-linear pattern, class with >= 2 slots and no symmetry used twice with permuted arguments"),
 "C05-b": ("multipat update_state normalises only the keys of the disequality constraints", "an e-node with two distinct slots matched through a fresh class binding, a later equation identifying the two slots (4 equations over two terms)"),
 "C06-a": ("Extractor::new seeds only the first leaf e-node of each class", "a cost function with different leaf weights and a class holding two different leaves (after a union), the dearer one first in iteration order"),
 "C06-b": ("Extractor::extract gives every *occurrence* of an uncovered redundant slot its own fresh slot", "a class whose cheapest e-node mentions a redundant slot at two positions"),
 "C07-a": ("shrink_slots re-asserts crossing generators with swapped operands but the unswapped proof", "a symmetry (x y z)(u v w) of which z becomes redundant: the surviving (u v w) rotation carries the inverse proof; explaining an equality that needs it panics"),
 "C07-b": ("explain_equivalence computes the leader/proof of t1 before adding t2", "t2 has no syntactic class yet and its insertion makes its class the new leader (term with a slot made redundant by a later union)"),
 "C08-a": ("touched_class no longer upgrades an 'analysis only' pending entry to a full one", "an e-graph with a real analysis whose data change in a union, and an e-node using both united classes"),
 "C08-b": ("determine_self_symmetries adds the symmetry but no longer re-queues the class's parents", "three levels: f becomes symmetric, p(f) inherits it, p's parents have shapes that depend on p's argument order"),
 "C09-a": ("the canonical variant is chosen by comparing public slot occurrences only", "an e-node with a binder whose bound slot and a free slot both go into a symmetric child class: ties make lookup miss present terms"),
 "C09-b": ("determine_self_symmetries re-queues the usages of the source class instead of the class that gained the symmetry", "a symmetry found through an e-node that stems from a merged-away class (src_id != class)"),
 "C10-a": ("schreiers_lemma passes generators that already fix the base point through unchanged and skips their coset products", "4-cycle plus a swap fixing the lowest moved slot, asserted in that order"),
 "C10-b": ("Group::add_set keeps the top orbit tree when the new permutations fix the base slot", "incremental additions such as swap(0,1) then swap(1,2); Group::new on the full set stays correct"),
 "C11-a": ("ematch_node pairs pattern slots and e-node slots through sorted sets instead of by position", "a pattern node with two own slots whose names sort differently from their order of occurrence"),
 "C11-b": ("Slot::named: fresh counter bump for f<n> names off by one (max instead of +4)", "the user names exactly the next fresh slot; the next fresh binder then captures it"),
 "C12-a": ("same edit as C02-a (found independently): move_to discards add_set's result", "a class with a symmetry merged into a class that lacks it but has a parent"),
 "C12-b": ("shrink_slots re-asserts only the first crossing generator", "two independent symmetries on disjoint slot pairs and one union that makes a slot of each pair redundant"),
 "C13-a": ("shrink_slots silently drops crossing generators (the state before fix 16816d5 without the panic)", "a symmetric class and a union that makes only part of an orbit redundant; also makes the upward-shrink loop spin forever on some inputs"),
 "C13-b": ("Group::generators returns only the top level's orbit-tree permutations", "a class with >= 4 slots and two independent swaps, then a third symmetry or a merge of that class"),
 "C14-a": ("update_analysis only reports a change, handle_pending notifies usages - but not on the congruence early-return path", "a pending parent that picked up new data, becomes congruent to an existing node, survives the union, and whose partner adds nothing new"),
 "C14-b": ("find_id reads the union-find entry directly (one step, no chain following / compression)", "an id merged away twice and not looked up in between; analysis_data(dead id) is stale"),
 "C15-a": ("progress() counts classes with a non-trivial group instead of summing group sizes", "a step whose only effect is to enlarge an already non-trivial symmetry group"),
 "C15-b": ("the Runner takes the node count once, before the hooks run, and uses it for the limit check", "a hook that changes the e-graph, with the node limit between the two counts"),
 "C16-a": ("private_slot_occurrences_mut matches public occurrences greedily by name in one merge pass", "a private occurrence that has the name of a public occurrence coming later in the same node"),
 "C16-b": ("Bind::weak_shape_impl numbers the binder through on_see_slot (reusing an existing number)", "a binder whose name was numbered before: an earlier free slot of the node or an enclosing same-named binder"),
 "C17-a": ("Slot::named: `fresh_idx <= out` became `<`", "naming f<k> where k is exactly the next fresh number"),
 "C17-b": ("canonical-spelling check of f<n> replaced by a leading-zero test", "names of the form f+<digits>"),
 "C18-a": ("crop_ident uses a char index as a byte index", "an identifier with a multi-byte character followed by a delimiter"),
 "C18-b": ("inside b[x := t] the position x is parsed without the substitution suffix", "a substitution pattern whose middle component is itself a substitution"),
 "C19-a": ("union/try_union fast path for disjoint key ranges with an off-by-one guard", "the largest key of self equals the smallest key of other"),
 "C19-b": ("search = linear scan over 16 entries + binary search whose Err index loses the offset", "inserting a new large key into a map with >= 17 entries"),
 "C20-a": ("EGraph::enodes returns a std HashSet (random seed) instead of the FxHashSet", "extraction tie-breaks among equal-cost leaves of one class; listing order of e-nodes"),
 "C20-b": ("group-compatible weak variants are deduplicated through a std HashMap whose values are returned", "a symmetric child class in an e-node with >= 2 weak-distinct variants and a pattern matching more than one"),
 # ---- second round (variants c, d): agents were asked for changes that are hard to find by random testing with small inputs
 "C02-c": ("move_to adds the inherited generators one by one and keeps only the last `grew` flag (= instead of |=)", "a dying class whose group has >= 2 generators the last of which is implied by the others (rotation of 3 slots), asserted before the merge, symmetric class the smaller one, position-sensitive users of the survivor inserted beforehand"),
 "C02-d": ("determine_self_symmetries: after asserting a redundancy found through a variant it returns without re-running for the remaining variants", "an e-node using the same symmetric class >= 2 times, one argument already redundant in the parent class, the child's symmetry asserted afterwards; with two uses it depends on the enumeration order of the group"),
 "C03-c": ("two cooperating sites: a rule application unions the matched class (not the re-instantiated left side) with the right side, and repeated pattern variables are compared by orbit membership instead of by the group", "a non-linear rule and a class with >= 4 slots whose group is transitive but not the full symmetric group; inert with explanations"),
 "C03-d": ("two cooperating sites: add_internal refreshes bound slots of a shape only on a visible clash, get_syn_node's capture check is compiled only under explanations", "b[x := t] on a redex whose body has >= 2 nested binders with the inner body using the outer bound variable; inert with explanations"),
 "C04-c": ("get_group_compatible_weak_variants enumerates the group permutations one child at a time (the product over several symmetric children is lost)", "an e-node with >= 2 children whose classes are symmetric, a pattern whose only match permutes both at once, a third asymmetric position"),
 "C04-d": ("move_to drops the touched_class(to) after inheriting symmetries (same defect as C02-a, found independently)", "plant, then make a separate class symmetric, then merge it into the planted leaf's class; the matcher then misses instances through classes above it"),
 "C06-c": ("Extractor::new counts unfinished child classes per usage after Vec::dedup() without sorting", "an e-node with >= 3 children in which one class occurs at non-adjacent positions, e.g. (t3 (v $x) c1 (v $y)); no language of the harness had a ternary operator before this change was seen"),
 "C06-d": ("refresh_internals forgets to refresh bound slots when the node has redundant slots", "a class whose cheapest e-node is a binder with a redundant slot, extracted below another such binder or with a query argument literally named $0"),
 "C07-c": ("move_to carries the dying class's generators over as (image, preimage): permutation stored with the proof of its inverse", "a non-involutive symmetry (3-cycle) on the dying side of a later union, then an explanation that uses the inherited symmetry"),
 "C07-d": ("explain_equivalence computes t1's leader/proof before inserting t2 (same defect as C07-b, found independently)", "t2 never inserted, with fewer slots than t1's class, as the second argument"),
 "C09-c": ("per-class cache of group permutations used by shape(), invalidated everywhere except in move_to", "a symmetric class with a parent, a second class with another symmetry merged into it (it survives), then the parent term re-inserted in an argument order that needs a new group element"),
 "C09-d": ("group-compatible variants: early return also when the e-node has fewer than two public slots", "a symmetric class directly under a binder that binds one of the slots the symmetry moves, leaving at most one free"),
 "C12-c": ("determine_self_symmetries returns instead of restarting after a variant proved a slot redundant (same site as C02-d, other condition)", "a 4-slot class with a redundant slot whose child receives the group {(x y),(z w)} in one step (merge of an already symmetric class)"),
 "C12-d": ("handle_pending skips the congruence union when the colliding e-node is in the same class over the same slot set", "p(u(x,y)) = p(v(y,x)) asserted before u(x,y) = v(x,y): the collapse proves a symmetry that is dropped"),
 "C13-c": ("shrink_slots keeps a generator only if it fixes every dropped slot; generators permuting dropped slots among themselves and kept slots are lost", "a class with >= 4 slots, one union with a doubly permuted copy, both extra slots dropped in one shrink step"),
 "C13-d": ("shrink_slots skips a crossing generator that no longer crosses the further shrunk slot set", "group generated by (1 2)(3 4) and (3 4), exactly one of slots 3, 4 becoming redundant, hash order"),
 "C14-c": ("new pending kind OnlyStructure for e-nodes moved by move_to, inserted blindly over an already pending analysis request", "one union that cascades in a single rebuild: X = {u(a), h(a,BIG)} merged by congruence into T = {h(b,BIG)} while a improves; hash order (1 of 4 operator names)"),
 "C14-d": ("analysis_data reads the union-find entry with one hop instead of find_id", "two merges a -> b -> c in one rebuild with a parent of a processed last, or a handle merged away twice without a find in between; masked under checks"),
 "C15-c": ("progress().sum_of_slots sums syn_slots (which never shrink)", "a round whose only effect is that a class loses a slot: three interacting rules, second round"),
 "C15-d": ("Runner checks the node limit against the previous iteration's recorded count", ">= 3 iterations, the count exceeding the limit unnoticed and dropping below it again through congruence in the next iteration"),
 "C20-c": ("group-compatible weak variants: above 8 variants deduplicated through a std HashMap (random seed)", "children whose symmetry groups multiply to > 8 variants in >= 2 weak shapes: a fully symmetric 4-slot class under a binder, e-matched"),
 "C20-d": ("`use std::collections::HashSet` shadows the deterministic alias inside src/group", "a group with >= 2 generators moving the lowest slot to the same target (orbit >= 3), then a parent added / matched / extracted"),
}
for k, (summary, needs) in N.items():
    p = os.path.join(ROOT, "seeded", k, "meta.json")
    if os.path.exists(p):
        m = json.load(open(p))
        m["summary"] = summary
        m["needs"] = needs
        m["breaks_property"] = k.split("-")[0]
        m["ran_detection"] = ["git -C /repo apply seeded/%s/patch.diff" % k, "bin/check <ID> quick  (target property first; all other properties when it stayed silent)", "git -C /repo checkout -- ."]
        json.dump(m, open(p, "w"), indent=1)
print("ok")
