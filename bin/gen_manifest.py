#!/usr/bin/env python3
"""Regenerates /verif/MANIFEST.json from the table below (single source of truth for the registered checks)."""
import json, os, subprocess
ROOT = os.path.dirname(os.path.dirname(os.path.abspath(__file__)))

CHECKS = {
 "C01": ("reference model: ground congruence closure over a finite name pool (pool 3m+1 before judging) vs eq / dropped slots / symmetries after every step of generated histories",
         "exploration of generated add/union histories (recipes for symmetry, redundancy, self-reference) against an independent ground closure; sound direction only judged at the pool size for which the oracle is complete",
         "oracle completeness argument of DESIGN 2.4 (guarded by the N+2 self-check in the thorough tier); bounded term size / names; slot names spelled $a.. / numeric from 1 / numeric from 0 / $f<n>; one stage on e-graphs that carry an analysis; exhaustive families as in C02 (incl. a slot of a symmetric 3-/4-slot class made redundant)"),
 "C02": ("reference model: ground congruence closure (sound for any pool) vs eq / dropped slots / symmetries / totals after every union of generated histories",
         "every equality, redundancy and symmetry the ground closure derives must be reported right after the union returns",
         "the ground closure only derives consequences of the asserted equations; bounded term size / names (four spellings); plus three exhaustive families (symmetry transfer, symmetry through a moved e-node, a slot of a symmetric 3-/4-slot class made redundant in two ways) and one stage on e-graphs that carry an analysis"),
 "C03": ("semantic model oracle: every e-node of every class evaluated in random environments of F_5 (summation binder over the index set {0,1}, let binder) against the class's Bellman-Ford-cheapest e-node, root against direct evaluation; rule pool self-validated at the model level",
         "generated start terms (incl. symmetric four-name terms used twice with permuted names) x rule subsets (incl. rules whose right side introduces a binder) x iterations x substitution method x spelling of the rule slots (as written / like existing class parameter slots)",
         "rule pool valid in the model (self-check); wrong e-node missed with probability 5^-8 per class"),
 "C04": ("constructed expectation: planted instance L.sigma.rho inside a context (optionally only present up to equality through balanced pre-unions) must yield R.sigma.rho represented and equal after one apply_rewrites",
         "generated patterns, substitutions, renamings, contexts and pre-unions within the scope the property states; plus non-linear and permuted left sides over 3-5 slot leaves made symmetric under a generated group (optionally merged with another class), second use permuted by an element of that group, or the permuted leaf two / three levels below a node that anchors one of its slots with the symmetry learnt only through the merge; a left side with a symmetric leaf over two pattern slots must fire in both orientations",
         "an instance that is represented by construction (through the pre-unions) but cannot be looked up is reported; cases where a class has a redundant slot are counted out of scope (as the property states)"),
 "C05": ("validity predicate: every substitution returned by ematch_all / multi_ematch is total, its instance looks up without inserting, multi-pattern equations hold, fingerprint unchanged",
         "random patterns and multi-patterns against reachable e-graphs; pattern slots spelled as written, like existing class parameter slots ($f<n>), $f0.., or numeric",
         "none beyond bounded sizes"),
 "C06": ("reference implementation (Bellman-Ford over eg.enodes) + round-trip: membership, recomputed cost = reported best cost = reference minimum, slot hygiene, totality; three strictly monotone cost functions",
         "every live class, every handle and renamed invocations, after every union/rewrite of generated histories; Extractor and the ast_size_extract entry point; plus a fixed family of doubling chains whose costs exceed the u64 range",
         "cost functions strictly monotone"),
 "C07": ("independent proof checker on terms: every node of every explanation DAG re-checked (reflexivity, symmetry, transitivity with solved renamings, congruence under binders, leaves against the asserted equations and rules)",
         "every equal pair of inserted terms of generated justified histories is explained and re-checked",
         "premises up to renamings injective on each side (the property's notion); known finding D18 tolerated at leaf level"),
 "C08": ("stateful property-based testing: invariants (check(), lookup/enodes/enodes_applied coherence, slot coverage, find idempotence) after every operation of generated operation sequences over all test languages - one sequence in three is observed only at its end, old handles first, because every query compresses union-find paths - in the default, the checks and the explanations build",
         "no panic and a consistent structure after every single operation of generated sequences (add, add_syn, union, rewrite, match, extract); one stage with an analysis whose modify hook unions (w(w(x)) = x), one with 10-argument operators",
         "well-formed inputs only; explanations+checks configuration not covered (DESIGN 7)"),
 "C09": ("metamorphic + differential: lookup vs add (creates nothing <=> lookup succeeds), variants that are represented by construction (alpha, renaming, replacement by united subterm) or that the ground congruence closure proves equal to an inserted term (mutated copies, and every copy with permuted free names of chosen inserted terms), renaming equivariance; slots of results against the ground closure",
         "probe terms on reachable e-graphs (mixed histories incl. rewriting; four spellings of slot names; one stage on e-graphs that carry an analysis, one with an analysis whose modify hook unions: returned invocations must have the slots of their canonical form)",
         "representedness of variants is by construction; redundancy oracle = ground closure (sound direction for this use)"),
 "C10": ("exhaustive enumeration of generator sets (<=3 generators on 2-4 points) + random sets on 5-6 points against brute-force subgroup closure, directly on the group structure (hook) and through union/eq on multi-slot leaves; redundancy variant judged by the ground closure",
         "exhaustive for the space the property names, random beyond; plus exhaustive: every generator set of 1-2 permutations on 3 and 4 points asserted on a leaf whose class is then merged with another class (either one the bigger, both orientations, generators before or after), judged by the ground closure",
         "hook wrapper delegates without logic"),
 "C11": ("metamorphic relation: the same history under two injective spellings of the slot alphabet (incl. reversed internal order and names colliding with internal fresh names), run in fresh threads, all observables compared in abstract names",
         "renaming equivariance of every observable on generated mixed histories; in the second run the rules' slots are renamed too ($r<name> interned in reverse order, or spelled like existing class parameter slots)",
         "known finding D19 routed for histories spelled $f<n>"),
 "C12": ("metamorphic relation: a history and a random topological re-ordering with orientation flips must give the same partition / live classes / slot and symmetry counts",
         "order and orientation independence on generated add/union histories (four spellings; leaves of up to 5 slots in one stage; one stage on e-graphs that carry an analysis)",
         "none beyond bounded sizes"),
 "C13": ("history invariants: recorded equalities persist, old handles usable (find/eq/extract), slot sets shrink, progress lexicographically monotone, after every operation of long mixed histories",
         "stateful exploration of long histories with invariants over everything recorded earlier; one history in three leaves the old handles untouched until the end (queries compress union-find paths); one stage with an analysis whose modify hook unions (an insertion's new class is merged away during the insertion)",
         "none beyond bounded sizes"),
 "C14": ("fixpoint equation + independent least fixpoint: datum = join of make over e-nodes, equal handles share data, min-size = Bellman-Ford = Extractor best cost, constants = independent LFP = model value, modify adds the numeral",
         "three analyses (min-size, min-depth, constant folding with modify) after every operation of generated histories",
         "only model-valid unions / rules for the constant analysis"),
 "C15": ("independent fingerprint (node count, eq-partition, slot and symmetry counts through eq) around apply_rewrites / Runner / run_eqsat; stop reasons checked against the final state, saturation re-checked by matching every rule",
         "generated start e-graphs x rule subsets x iteration / node limits (absolute, and relative to the start size) x failing hooks; one stage whose e-node count grows and then shrinks by congruence; a fixed family in which the time limit expires inside an iteration (slow searcher)",
         "TimeLimit never asserted about"),
 "C16": ("reference canonicaliser on a model AST + algebraic shape laws + occurrence partition + syntax round-trip; exhaustive over small slot assignments, random beyond",
         "all node variants of seven derived languages (incl. 10-argument operators) with repeated and shadowing names, under seven spellings incl. ones that number a node's names $0,$1,.. by first occurrence (purely numeric, or mixed with fresh-kind and named slots); payload values with whitespace in the syntax round trip",
         "child invocations are bijective maps"),
 "C17": ("model-based stateful testing: name<->slot model over generated sequences of fresh / numeric / named / print+parse; metamorphic for the consequence clause: the matcher's validity oracle with pattern slots spelled like existing class parameter slots, judged only if the same case passes with ordinary names",
         "freshness and injectivity of names against a model map, in a fresh thread per case (short mixed sequences, and 10-120 / 600 distinct ordinary names with repeated mentions); no capture of user slots that coincide with invented ones",
         "names denoting numbers >= 2^30 are outside the domain"),
 "C18": ("round-trip property (print then parse) over directly constructed values + no-panic/arity predicate over generated and mutated texts",
         "round-trip over generated terms/patterns/multi-patterns (payload fields in every position, two payloads in one variant) and robustness over token soup, truncations, splices, mutations, near misses of multi-patterns and of 10-/11-argument nodes; sessions of 2-9 round-trips / parses in several languages in ONE thread, every verdict compared with a fresh thread's",
         "payload spellings restricted as the statement allows"),
 "C19": ("exhaustive enumeration (all sequences <= 5 over 4x4, all 625 maps and pairs) + random long sequences, against a BTreeMap reference",
         "exhaustive for the small space the property names, random beyond the inline capacity (25-slot universe incl. fresh slots and the spelled-out name of the very next fresh slot)",
         "operations with checks-mode preconditions only called inside them"),
}

CHECKS["C20"] = ("replay determinism: byte-identical transcripts across fresh threads (sequential and concurrent with interfering threads) and across separate processes (stdout incl. dump)",
         "generated histories (four spellings of slot names) replayed 3+3 times in threads and twice in processes",
         "interleavings sampled by stress; known finding D17 (Symbol intern index) routed")
NOT_YET = {}

def main():
    props = [json.loads(l) for l in open(os.path.join(ROOT, "properties.jsonl"))]
    checks = []
    na = []
    for p in props:
        pid = p["id"]
        if pid in CHECKS:
            tech, text, note = CHECKS[pid]
            checks.append({
                "property_id": pid,
                "quick_cmd": f"bin/check {pid} quick",
                "thorough_cmd": f"bin/check {pid} thorough",
                "evidence_file": f"/verif/evidence/{pid}.json",
                "replay_cmd_template": "bin/replay {path}",
                "engine": "sev",
                "level_claimed": {"category": "exploration", "text": text, "design_ref": f"DESIGN.md section 3, {pid}"},
                "level_note": note,
                "technique": "property-based testing: " + tech + "; thorough tier additionally coverage-guided fuzzing (libFuzzer) of the same generators and oracle",
            })
        else:
            na.append({"property_id": pid, "reason": NOT_YET.get(pid, "check not built yet (work in progress in this session; the technique applies, see DESIGN.md section 3)")})
    hooks_commits = []
    try:
        out = subprocess.check_output(["git", "-C", "/repo", "log", "--format=%h %s"], text=True)
        hooks_commits = [l.split()[0] for l in out.splitlines() if l.split(" ", 1)[1].startswith("verif hook")]
    except Exception:
        pass
    m = {
        "version": 1,
        "setup_cmd": "cd /verif && bin/setup",
        "hooks": {
            "guard": "cfg(slotted_egraphs_verif)",
            "enable": "rustflags --cfg slotted_egraphs_verif in /verif/harness/.cargo/config.toml (and the fuzz crate's)",
            "baseline_off_cmd": "cd /repo && cargo test --workspace --no-fail-fast --offline",
            "source_commits": hooks_commits,
            "add_only": True,
        },
        "engines": [
            {"name": "sev", "path": "/verif/harness", "serves_properties": sorted(CHECKS.keys()),
             "kind_free_text": "Rust harness: proptest strategies (generation + shrinking) and exhaustive enumerators drive explicit oracles; every case runs in a fresh thread (in a child process after a crash); shrunk failures become JSON replay files"},
            {"name": "sev-fuzz", "path": "/verif/harness/fuzz", "serves_properties": sorted(CHECKS.keys()),
             "kind_free_text": "cargo-fuzz / libFuzzer targets (thorough tier, ASan): fz_stage is generic - the property is selected by SEV_FUZZ_PROP, the input bytes are the random stream of that property's own proptest strategies (pass-through RNG), the decoded case is judged by the same run function and oracle as in the proptest engine; fz_parse (C18, raw text), fz_slotmap (C19), fz_shape (C16), fz_history (C08) are byte-level targets of their own"},
        ],
        "checks": checks,
        "not_applicable": na,
        "notes": "bin/check <ID> <tier> rebuilds the harness from /repo's working tree (path dependency), runs every build configuration the property names, merges evidence. Exit 0 held / 1 VIOLATION / 2 inconclusive.",
    }
    json.dump(m, open(os.path.join(ROOT, "MANIFEST.json"), "w"), indent=1)
    print("checks:", len(checks), "not_applicable:", len(na))

main()
